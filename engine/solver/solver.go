// Package solver drives one long-lived SMT solver process (z3 -in, z3-new -in,
// cvc5 --incremental) over stdin/stdout.
package solver

import (
	"bufio"
	"fmt"
	"io"
	"os"
	"os/exec"
	"strconv"
	"strings"
	"time"

	"verif/engine/term"
)

type Result int

const (
	Unsat Result = iota
	Sat
	Unknown
)

func (r Result) String() string { return [...]string{"unsat", "sat", "unknown"}[r] }

type Stats struct {
	Queries   int
	Sat       int
	Unsat     int
	Unknown   int
	Errors    int
	Seconds   float64
	Restarts  int
	MaxQueryS float64
}

type Solver struct {
	Bin       string
	Args      []string
	TimeoutMs int
	Stats     Stats
	Log       io.Writer // optional transcript

	cmd    *exec.Cmd
	in     io.WriteCloser
	out    *bufio.Reader
	lines  chan string
	P      *term.Printer
	seq    int
	stack  [][]*term.T // asserted terms per scope (scope 0 = base)
	isCVC5 bool
}

func New(bin string, timeoutMs int) (*Solver, error) {
	s := &Solver{Bin: bin, TimeoutMs: timeoutMs}
	switch {
	case strings.Contains(bin, "cvc5"):
		s.Args = []string{"--incremental", "--lang=smt2", "--produce-models"}
		s.isCVC5 = true
	default:
		s.Args = []string{"-in"}
	}
	if err := s.start(); err != nil {
		return nil, err
	}
	return s, nil
}

func (s *Solver) start() error {
	s.cmd = exec.Command(s.Bin, s.Args...)
	var err error
	s.in, err = s.cmd.StdinPipe()
	if err != nil {
		return err
	}
	op, err := s.cmd.StdoutPipe()
	if err != nil {
		return err
	}
	s.cmd.Stderr = os.Stderr
	if err := s.cmd.Start(); err != nil {
		return err
	}
	s.out = bufio.NewReaderSize(op, 1<<20)
	s.lines = make(chan string, 1024)
	go func(r *bufio.Reader, ch chan string) {
		for {
			l, err := r.ReadString('\n')
			if l != "" {
				ch <- strings.TrimRight(l, "\r\n")
			}
			if err != nil {
				close(ch)
				return
			}
		}
	}(s.out, s.lines)
	s.P = term.NewPrinter()
	s.stack = [][]*term.T{nil}
	s.preamble()
	return nil
}

func (s *Solver) preamble() {
	if s.isCVC5 {
		s.send("(set-logic ALL)\n")
	}
	s.send(term.Preamble)
	if s.TimeoutMs > 0 {
		if s.isCVC5 {
			s.send(fmt.Sprintf("(set-option :tlimit-per %d)\n", s.TimeoutMs))
		} else {
			s.send(fmt.Sprintf("(set-option :timeout %d)\n", s.TimeoutMs))
		}
	}
}

func (s *Solver) send(txt string) {
	if s.Log != nil {
		io.WriteString(s.Log, txt)
	}
	io.WriteString(s.in, txt)
}

func (s *Solver) Close() {
	if s.cmd != nil {
		s.in.Close()
		s.cmd.Process.Kill()
		s.cmd.Wait()
		s.cmd = nil
	}
}

// SetTimeout changes the per-query timeout of the running solver.
func (s *Solver) SetTimeout(ms int) {
	if s.isCVC5 {
		s.send(fmt.Sprintf("(set-option :tlimit-per %d)\n", ms))
	} else {
		s.send(fmt.Sprintf("(set-option :timeout %d)\n", ms))
	}
}

// Reset clears all assertions and definitions.
func (s *Solver) Reset() {
	s.send("(reset)\n")
	s.P = term.NewPrinter()
	s.stack = [][]*term.T{nil}
	s.preamble()
}

func (s *Solver) Push() {
	s.send("(push 1)\n")
	s.P.Push()
	s.stack = append(s.stack, nil)
}

func (s *Solver) Pop() {
	s.send("(pop 1)\n")
	s.P.Pop()
	s.stack = s.stack[:len(s.stack)-1]
}

func (s *Solver) Assert(t *term.T) {
	if t.IsTrue() {
		return
	}
	s.stack[len(s.stack)-1] = append(s.stack[len(s.stack)-1], t)
	s.assert1(t)
}

func (s *Solver) assert1(t *term.T) {
	ref := s.P.Ref(t)
	s.send(s.P.Take())
	s.send("(assert " + ref + ")\n")
}

// sync sends a marker and collects all lines up to it.
func (s *Solver) sync(deadline time.Duration) ([]string, bool) {
	s.seq++
	marker := fmt.Sprintf("DONE%d", s.seq)
	s.send("(echo \"" + marker + "\")\n")
	var got []string
	timer := time.NewTimer(deadline)
	defer timer.Stop()
	for {
		select {
		case l, ok := <-s.lines:
			if !ok {
				return got, false
			}
			if strings.Trim(l, "\"") == marker {
				return got, true
			}
			got = append(got, l)
		case <-timer.C:
			return got, false
		}
	}
}

func (s *Solver) restart() {
	s.Stats.Restarts++
	saved := s.stack
	s.Close()
	if err := s.start(); err != nil {
		panic(err)
	}
	for i, sc := range saved {
		if i > 0 {
			s.Push()
		}
		for _, t := range sc {
			s.Assert(t)
		}
	}
}

// Check runs (check-sat) in the current context.
func (s *Solver) Check() Result {
	t0 := time.Now()
	s.send("(check-sat)\n")
	wait := time.Duration(s.TimeoutMs)*time.Millisecond + 10*time.Second
	if s.TimeoutMs == 0 {
		wait = time.Hour
	}
	lines, ok := s.sync(wait)
	dt := time.Since(t0).Seconds()
	s.Stats.Queries++
	s.Stats.Seconds += dt
	if dt > s.Stats.MaxQueryS {
		s.Stats.MaxQueryS = dt
	}
	if !ok {
		s.Stats.Unknown++
		s.restart()
		return Unknown
	}
	res := Unknown
	sawErr := false
	for _, l := range lines {
		switch {
		case l == "sat":
			res = Sat
		case l == "unsat":
			res = Unsat
		case l == "unknown":
			res = Unknown
		case strings.Contains(l, "(error") || strings.Contains(l, "error"):
			sawErr = true
			fmt.Fprintf(os.Stderr, "solver error line: %s\n", l)
		}
	}
	if sawErr {
		s.Stats.Errors++
		s.Stats.Unknown++
		return Unknown
	}
	switch res {
	case Sat:
		s.Stats.Sat++
	case Unsat:
		s.Stats.Unsat++
	default:
		s.Stats.Unknown++
	}
	return res
}

// CheckWith checks the context plus extra in a temporary scope.  When the
// result is Sat and wantModel is set, the model of vars is returned.
func (s *Solver) CheckWith(extra *term.T, vars []*term.T) (Result, map[string]uint64) {
	if extra.IsFalse() {
		return Unsat, nil
	}
	s.Push()
	s.Assert(extra)
	r := s.Check()
	var m map[string]uint64
	if r == Sat && vars != nil {
		m = s.Model(vars)
	}
	s.Pop()
	return r, m
}

// Model fetches values of the given variables after a Sat answer.
func (s *Solver) Model(vars []*term.T) map[string]uint64 {
	m := map[string]uint64{}
	if len(vars) == 0 {
		return m
	}
	// only variables the solver knows about can be queried
	var names []string
	var vs []*term.T
	for _, v := range vars {
		names = append(names, s.P.Ref(v))
		vs = append(vs, v)
	}
	s.send(s.P.Take())
	for i := 0; i < len(names); i += 200 {
		j := i + 200
		if j > len(names) {
			j = len(names)
		}
		s.send("(get-value (" + strings.Join(names[i:j], " ") + "))\n")
		lines, ok := s.sync(60 * time.Second)
		if !ok {
			return m
		}
		toks := tokenize(strings.Join(lines, " "))
		parseValues(toks, vs[i:j], m)
	}
	return m
}

func tokenize(s string) []string {
	var out []string
	i := 0
	for i < len(s) {
		c := s[i]
		switch {
		case c == ' ' || c == '\t' || c == '\n':
			i++
		case c == '(' || c == ')':
			out = append(out, string(c))
			i++
		case c == '|':
			j := strings.IndexByte(s[i+1:], '|')
			out = append(out, s[i:i+j+2])
			i += j + 2
		default:
			j := i
			for j < len(s) && !strings.ContainsRune(" \t\n()", rune(s[j])) {
				j++
			}
			out = append(out, s[i:j])
			i = j
		}
	}
	return out
}

// parseValues parses ((name val) (name val) ...) in order of vs.
func parseValues(toks []string, vs []*term.T, m map[string]uint64) {
	pos := 0
	next := func() string {
		if pos < len(toks) {
			pos++
			return toks[pos-1]
		}
		return ""
	}
	var parseVal func() (uint64, bool)
	parseVal = func() (uint64, bool) {
		t := next()
		switch {
		case t == "(":
			h := next()
			switch h {
			case "-":
				v, ok := parseVal()
				next() // )
				return uint64(-int64(v)), ok
			case "_":
				// (_ bvN w)
				bv := next()
				next()
				next()
				n, err := strconv.ParseUint(strings.TrimPrefix(bv, "bv"), 10, 64)
				return n, err == nil
			default:
				depth := 1
				for depth > 0 && pos < len(toks) {
					x := next()
					if x == "(" {
						depth++
					} else if x == ")" {
						depth--
					}
				}
				return 0, false
			}
		case strings.HasPrefix(t, "#x"):
			n, err := strconv.ParseUint(t[2:], 16, 64)
			return n, err == nil
		case strings.HasPrefix(t, "#b"):
			n, err := strconv.ParseUint(t[2:], 2, 64)
			return n, err == nil
		case t == "true":
			return 1, true
		case t == "false":
			return 0, true
		default:
			n, err := strconv.ParseUint(t, 10, 64)
			return n, err == nil
		}
	}
	if next() != "(" {
		return
	}
	for i := 0; i < len(vs); i++ {
		if next() != "(" {
			return
		}
		next() // name
		v, ok := parseVal()
		if ok {
			m[vs[i].Name] = v
		}
		if next() != ")" {
			return
		}
	}
}
