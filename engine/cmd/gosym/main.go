// gosym symbolically executes VerifHarness_* functions of a gopar package.
package main

import (
	"encoding/json"
	"flag"
	"fmt"
	"os"
	"strings"
	"time"

	"verif/engine/sym"
)

func main() {
	repo := flag.String("repo", "/repo", "repository root")
	pkg := flag.String("pkg", "", "package pattern relative to repo, e.g. ./gf2")
	hdir := flag.String("harness", "/verif/harness", "harness directory")
	fn := flag.String("func", "", "harness function name(s), comma separated, or prefix*")
	tables := flag.String("tables", "", "gf2p16 table dump")
	solverBin := flag.String("solver", "z3", "solver binary")
	timeout := flag.Int("timeout-ms", 120000, "per-query timeout")
	maxPaths := flag.Int("max-paths", 0, "path limit")
	maxSteps := flag.Int("max-steps", 0, "per-path SSA step limit")
	out := flag.String("out", "", "result JSON file (default stdout)")
	pin := flag.String("pin", "", "JSON file with input values to pin (validation / re-execution)")
	stopFirst := flag.Bool("stop-at-first", false, "stop at first counterexample")
	list := flag.Bool("list", false, "list harnesses and exit")
	debug := flag.Bool("debug", false, "debug output")
	smtlog := flag.String("smtlog", "", "write the SMT-LIB transcript to this file")
	flag.Parse()

	t0 := time.Now()
	prog, err := sym.Load(sym.LoadConfig{Repo: *repo, Patterns: []string{*pkg}, HarnessDir: *hdir, Tables: *tables, Solver: *solverBin, TimeoutMs: *timeout, Debug: *debug, SMTLog: *smtlog})
	if err != nil {
		fmt.Fprintln(os.Stderr, "load:", err)
		os.Exit(2)
	}
	loadS := time.Since(t0).Seconds()
	var names []string
	for _, f := range strings.Split(*fn, ",") {
		if strings.HasSuffix(f, "*") {
			names = append(names, prog.Harnesses(strings.TrimPrefix(strings.TrimSuffix(f, "*"), "VerifHarness_"))...)
		} else if f != "" {
			names = append(names, f)
		}
	}
	if *list {
		for _, n := range prog.Harnesses("") {
			fmt.Println(n)
		}
		return
	}
	eng, err := sym.NewEngine(prog)
	if err != nil {
		fmt.Fprintln(os.Stderr, "engine:", err)
		os.Exit(2)
	}
	defer eng.Close()
	if *pin != "" {
		b, err := os.ReadFile(*pin)
		if err != nil {
			fmt.Fprintln(os.Stderr, err)
			os.Exit(2)
		}
		var m struct {
			Model map[string]uint64 `json:"model"`
		}
		if err := json.Unmarshal(b, &m); err != nil {
			fmt.Fprintln(os.Stderr, err)
			os.Exit(2)
		}
		eng.Pin(m.Model)
	}
	if err := eng.InitPackages(prog.Pkgs); err != nil {
		fmt.Fprintln(os.Stderr, err)
		os.Exit(2)
	}
	initS := time.Since(t0).Seconds() - loadS
	type outT struct {
		LoadS   float64       `json:"load_s"`
		InitS   float64       `json:"init_s"`
		Results []*sym.Result `json:"results"`
		Hashes  map[string]string `json:"source_hashes"`
	}
	o := outT{LoadS: loadS, InitS: initS, Hashes: map[string]string{}}
	for _, n := range names {
		f := prog.FindFunc(n)
		if f == nil {
			fmt.Fprintln(os.Stderr, "no such harness:", n)
			os.Exit(2)
		}
		res := eng.Run(f, sym.Options{MaxPaths: *maxPaths, MaxSteps: *maxSteps, StopAtFirst: *stopFirst})
		o.Results = append(o.Results, res)
		for name := range res.Funcs {
			if h := eng.FuncHash(name); h != "" {
				o.Hashes[name] = h
			}
		}
	}
	enc, _ := json.MarshalIndent(o, "", " ")
	if *out == "" {
		os.Stdout.Write(enc)
		fmt.Println()
	} else {
		os.WriteFile(*out, enc, 0644)
	}
}
