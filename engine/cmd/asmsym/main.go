// asmsym symbolically executes the amd64 kernels of gf2p16/slice_amd64.s.
//
// Front end: the file is assembled with `go tool asm` and disassembled with
// `go tool objdump`, so what is executed is the machine code the build uses
// (macros expanded, jump targets resolved).  Every kernel is run from its
// entry with symbolic base addresses, lengths, contents and constant; loops
// are cut at their back-edge target by induction on the iteration number k
// (linear induction registers are detected from one trial iteration).
//
// Obligations (each decided by z3 or by the GF(2) normal form):
//   - every load/store lies inside the region its address was derived from
//   - stores go to `out` only
//   - the back edge is taken iff k+1 < N, N = len/2 resp. len/32 (trip count)
//   - iteration footprints are disjoint for different k
//   - the bytes stored in iteration k are c*in-word (^ old out-word)
package main

import (
	"encoding/json"
	"flag"
	"fmt"
	"go/ast"
	"go/parser"
	"go/token"
	"os"
	"os/exec"
	"path/filepath"
	"regexp"
	"sort"
	"strconv"
	"strings"
	"time"

	"verif/engine/solver"
	"verif/engine/term"
)

type instr struct {
	pc    uint64
	line  string
	op    string
	args  []string
	bytes string
}

type fn struct {
	name   string
	instrs []instr
	index  map[uint64]int
}

type region struct {
	name    string
	size    *term.T // bytes (64-bit term)
	kind    string  // "in", "out", "tab", "tab64", "buf16"
	aliasOf *region
}

type val struct {
	r *region // nil: plain integer
	t *term.T // offset or value (64 bit)
}

type write struct {
	off *term.T
	b   *term.T
}

type xmm struct {
	b   [16]*term.T
	tag *tabTag
}

type tabTag struct {
	shift int
	high  bool
}

type state struct {
	g      map[string]val
	x      map[string]*xmm
	flagA  *term.T // last compare: a - b, or result vs 0
	flagB  *term.T
	writes map[*region][]write
	reads  map[*region][][2]*term.T // [off, off+n)
	wr     map[*region][][2]*term.T
}

type result struct {
	Obligations  int               `json:"obligations"`
	BySolver     int               `json:"by_solver"`
	ByANF        int               `json:"by_normal_form"`
	Trivial      int               `json:"trivial"`
	Queries      int               `json:"queries"`
	SolverS      float64           `json:"solver_s"`
	Paths        int               `json:"paths"`
	Steps        int               `json:"steps"`
	Labels       map[string]int    `json:"labels"`
	Violations   []violation       `json:"violations"`
	Inconclusive []string          `json:"inconclusive"`
	Functions    map[string]int    `json:"functions"`
	Samples      []string          `json:"samples"`
	Mnemonics    map[string]int    `json:"mnemonics"`
}

type violation struct {
	Label string            `json:"label"`
	Model map[string]uint64 `json:"model"`
	Func  string            `json:"func"`
}

type xexec struct {
	f     *fn
	S     *solver.Solver
	res   *result
	pc    []*term.T
	c     *term.T // the constant (16-bit)
	regs  map[string]*region
	vars  []*term.T
	same  bool // in and out are the same buffer
	fresh int
	cfg   kernelCfg
	// concrete contents for -validate runs
	concrete map[string][]byte
}

type kernelCfg struct {
	simd bool
	add  bool
}

var kernels = map[string]kernelCfg{
	"gf2p16.mulByteSliceLEUnsafe":       {false, false},
	"gf2p16.mulAndAddByteSliceLEUnsafe": {false, true},
	"gf2p16.mulSliceSSSE3Unsafe":        {true, false},
	"gf2p16.mulAndAddSliceSSSE3Unsafe":  {true, true},
}

func main() {
	repo := flag.String("repo", "/repo", "repository root")
	out := flag.String("out", "", "result JSON")
	only := flag.String("func", "", "only this kernel (suffix match)")
	timeout := flag.Int("timeout-ms", 60000, "per-query timeout")
	validate := flag.String("validate", "", "write concrete test cases (inputs and the outputs asmsym computes by executing the instruction list concretely) to this file")
	seed := flag.Int64("seed", 1, "seed for -validate inputs")
	flag.Parse()
	if *validate != "" {
		if err := writeValidationCases(*repo, *validate, *seed); err != nil {
			fmt.Fprintln(os.Stderr, err)
			os.Exit(2)
		}
		return
	}
	res := &result{Labels: map[string]int{}, Functions: map[string]int{}, Mnemonics: map[string]int{}}
	fns, err := disassemble(*repo)
	if err != nil {
		res.Inconclusive = append(res.Inconclusive, "front end: "+err.Error())
		emit(res, *out)
		return
	}
	sigs, err := signatures(filepath.Join(*repo, "gf2p16", "slice_amd64.go"))
	if err != nil {
		res.Inconclusive = append(res.Inconclusive, "signatures: "+err.Error())
		emit(res, *out)
		return
	}
	S, err := solver.New("z3", *timeout)
	if err != nil {
		res.Inconclusive = append(res.Inconclusive, err.Error())
		emit(res, *out)
		return
	}
	defer S.Close()
	var names []string
	for n := range kernels {
		names = append(names, n)
	}
	sort.Strings(names)
	t0 := time.Now()
	for _, n := range names {
		if *only != "" && !strings.HasSuffix(n, *only) {
			continue
		}
		f := fns[n]
		if f == nil {
			res.Inconclusive = append(res.Inconclusive, "kernel not found in object file: "+n)
			continue
		}
		short := strings.TrimPrefix(n, "gf2p16.")
		sig := sigs[short]
		if sig == nil {
			res.Inconclusive = append(res.Inconclusive, "no Go declaration for "+short)
			continue
		}
		for _, same := range []bool{false, true} {
			func() {
				defer func() {
					if r := recover(); r != nil {
						if os.Getenv("ASMSYM_DEBUG") != "" {
							panic(r)
						}
						res.Inconclusive = append(res.Inconclusive, fmt.Sprintf("%s: %v", short, r))
					}
				}()
				e := &xexec{f: f, S: S, res: res, cfg: kernels[n], same: same}
				e.run(short, sig)
			}()
		}
		res.Functions[n] = len(f.instrs)
	}
	res.Queries = S.Stats.Queries
	res.SolverS = S.Stats.Seconds
	_ = t0
	emit(res, *out)
}

func emit(res *result, out string) {
	b, _ := json.MarshalIndent(res, "", " ")
	if out == "" {
		os.Stdout.Write(b)
		fmt.Println()
	} else {
		os.WriteFile(out, b, 0644)
	}
}

// ---------- front end ----------

var lineRE = regexp.MustCompile(`^\s+(\S+:\d+)\s+0x([0-9a-f]+)\s+([0-9a-f]+)\s+(\S+)\s*(.*?)\s*$`)

func disassemble(repo string) (map[string]*fn, error) {
	tmp, err := os.MkdirTemp("", "asmsym")
	if err != nil {
		return nil, err
	}
	defer os.RemoveAll(tmp)
	obj := filepath.Join(tmp, "x.o")
	goroot, err := exec.Command("go", "env", "GOROOT").Output()
	if err != nil {
		return nil, err
	}
	inc := filepath.Join(strings.TrimSpace(string(goroot)), "pkg", "include")
	cmd := exec.Command("go", "tool", "asm", "-I", inc, "-p", "gf2p16", "-o", obj, "slice_amd64.s")
	cmd.Dir = filepath.Join(repo, "gf2p16")
	if b, err := cmd.CombinedOutput(); err != nil {
		return nil, fmt.Errorf("go tool asm: %v: %s", err, b)
	}
	b, err := exec.Command("go", "tool", "objdump", obj).Output()
	if err != nil {
		return nil, fmt.Errorf("go tool objdump: %v", err)
	}
	fns := map[string]*fn{}
	var cur *fn
	for _, l := range strings.Split(string(b), "\n") {
		if strings.HasPrefix(l, "TEXT ") {
			name := strings.Fields(l)[1]
			name = strings.TrimSuffix(name, "(SB)")
			cur = &fn{name: name, index: map[uint64]int{}}
			fns[name] = cur
			continue
		}
		m := lineRE.FindStringSubmatch(l)
		if m == nil || cur == nil {
			continue
		}
		pc, _ := strconv.ParseUint(m[2], 16, 64)
		in := instr{pc: pc, line: m[1], op: m[4], bytes: m[3]}
		if m[5] != "" {
			for _, a := range splitArgs(m[5]) {
				in.args = append(in.args, strings.TrimSpace(a))
			}
		}
		cur.index[pc] = len(cur.instrs)
		cur.instrs = append(cur.instrs, in)
	}
	return fns, nil
}

func splitArgs(s string) []string {
	var out []string
	depth := 0
	start := 0
	for i, c := range s {
		switch c {
		case '(':
			depth++
		case ')':
			depth--
		case ',':
			if depth == 0 {
				out = append(out, s[start:i])
				start = i + 1
			}
		}
	}
	return append(out, s[start:])
}

type param struct {
	name string
	kind string // "ptr:<type>" or "slice"
}

func signatures(path string) (map[string][]param, error) {
	fset := token.NewFileSet()
	f, err := parser.ParseFile(fset, path, nil, 0)
	if err != nil {
		return nil, err
	}
	out := map[string][]param{}
	for _, d := range f.Decls {
		fd, ok := d.(*ast.FuncDecl)
		if !ok || fd.Body != nil {
			continue
		}
		var ps []param
		for _, fl := range fd.Type.Params.List {
			kind := ""
			switch t := fl.Type.(type) {
			case *ast.StarExpr:
				switch x := t.X.(type) {
				case *ast.Ident:
					kind = "ptr:" + x.Name
				case *ast.ArrayType:
					kind = "ptr:[16]byte"
				}
			case *ast.ArrayType:
				if t.Len == nil {
					kind = "slice"
				}
			}
			if kind == "" {
				return nil, fmt.Errorf("unsupported parameter type in %s", fd.Name.Name)
			}
			for _, n := range fl.Names {
				ps = append(ps, param{n.Name, kind})
			}
		}
		out[fd.Name.Name] = ps
	}
	return out, nil
}

// ---------- execution ----------

func c64(v uint64) *term.T { return term.Const(64, v) }

func (e *xexec) newVar(name string, w int) *term.T {
	v := term.Var(name, w)
	e.vars = append(e.vars, v)
	return v
}

func (e *xexec) assume(c *term.T) {
	e.pc = append(e.pc, c)
	e.S.Assert(c)
}

func (e *xexec) prefix() string {
	s := strings.TrimPrefix(e.f.name, "gf2p16.")
	if e.same {
		s += "[in==out]"
	}
	return s
}

// oblige checks c under the current path condition.
func (e *xexec) oblige(c *term.T, label string) bool {
	label = e.prefix() + ": " + label
	e.res.Obligations++
	e.res.Labels[label]++
	if c.IsTrue() {
		e.res.Trivial++
		return true
	}
	if term.ANFProve(c) {
		e.res.ByANF++
		e.sample(label, c, "normal form")
		return true
	}
	r, m := e.S.CheckWith(term.BNot(c), e.vars)
	switch r {
	case solver.Unsat:
		e.res.BySolver++
		e.sample(label, c, "solver")
		return true
	case solver.Sat:
		// shrink the counterexample: smallest in_len (binary search with the solver)
		if lv := term.LookupVar("in_len"); lv != nil {
			lo, hi := uint64(0), m["in_len"]
			for lo < hi {
				mid := lo + (hi-lo)/2
				e.S.Push()
				e.S.Assert(term.BNot(c))
				e.S.Assert(term.Ule(lv, c64(mid)))
				r2 := e.S.Check()
				if r2 == solver.Sat {
					m = e.S.Model(e.vars)
					hi = m["in_len"]
				} else {
					lo = mid + 1
				}
				e.S.Pop()
			}
		}
		e.res.Violations = append(e.res.Violations, violation{Label: label, Model: m, Func: e.prefix()})
		return false
	}
	e.res.Inconclusive = append(e.res.Inconclusive, "solver unknown on: "+label)
	return false
}

func (e *xexec) sample(label string, c *term.T, how string) {
	if len(e.res.Samples) < 12 {
		s := c.String()
		if len(s) > 240 {
			s = s[:240] + "…"
		}
		e.res.Samples = append(e.res.Samples, fmt.Sprintf("[%s] %s: %s", how, label, s))
	}
}

func (e *xexec) run(short string, sig []param) {
	e.S.Reset()
	e.pc = nil
	e.vars = nil
	e.regs = map[string]*region{}
	e.c = e.newVar("c", 16)
	st := &state{g: map[string]val{}, x: map[string]*xmm{}, writes: map[*region][]write{}, reads: map[*region][][2]*term.T{}, wr: map[*region][][2]*term.T{}}
	// argument frame: 8(SP) first
	stack := map[int64]val{}
	off := int64(8)
	for _, p := range sig {
		switch {
		case p.kind == "slice":
			r := &region{name: p.name, kind: p.name}
			if e.same && p.name == "out" {
				r.aliasOf = e.regs["in"]
			}
			n := e.newVar(p.name+"_len", 64)
			e.assume(term.Ult(n, c64(1<<62)))
			r.size = n
			e.regs[p.name] = r
			stack[off] = val{r, c64(0)}
			stack[off+8] = val{nil, n}
			stack[off+16] = val{nil, e.newVar(p.name+"_cap", 64)}
			off += 24
		case strings.HasPrefix(p.kind, "ptr:"):
			r := &region{name: p.name}
			switch p.kind {
			case "ptr:mulTableEntry":
				r.kind, r.size = "tab", c64(1024)
			case "ptr:mulTable64Entry":
				r.kind, r.size = "tab64", c64(128)
			default:
				r.kind, r.size = "buf16", c64(16)
			}
			e.regs[p.name] = r
			stack[off] = val{r, c64(0)}
			off += 8
		}
	}
	in, out := e.regs["in"], e.regs["out"]
	if in == nil || out == nil {
		panic("kernel without in/out slices")
	}
	// caller contract (discharged on the Go side by the C09 dispatch harnesses)
	e.assume(term.Eq(in.size, out.size))
	var N *term.T
	if e.cfg.simd {
		e.assume(term.Ule(c64(32), in.size))
		N = term.LShr(in.size, c64(5))
	} else {
		e.assume(term.Ule(c64(2), in.size))
		e.assume(term.Eq(term.Extract(in.size, 0, 0), term.Const(1, 0)))
		N = term.LShr(in.size, c64(1))
	}
	per := uint64(2)
	if e.cfg.simd {
		per = 32
	}

	// find the loop: the target of the (single) backward jump
	head, back := -1, -1
	for i, ins := range e.f.instrs {
		if isJcc(ins.op) {
			t, _ := strconv.ParseUint(strings.TrimPrefix(ins.args[0], "0x"), 16, 64)
			if t <= ins.pc {
				if head >= 0 {
					panic("more than one loop")
				}
				head, back = e.f.index[t], i
			}
		}
	}
	if head < 0 {
		panic("no loop found")
	}
	// straight-line prologue
	for i := 0; i < head; i++ {
		if isJcc(e.f.instrs[i].op) {
			// forward conditional jump in the prologue (early exit on zero count)
			panic("conditional jump in prologue not supported for production kernels")
		}
		e.step(st, e.f.instrs[i], stack)
	}
	// which registers does the body modify?  trial iteration from a havoced state
	mod := map[string]bool{}
	for i := head; i <= back; i++ {
		if d := dest(e.f.instrs[i]); d != "" {
			mod[d] = true
		}
	}
	trial := cloneState(st)
	tv := map[string]*term.T{}
	for r := range mod {
		if strings.HasPrefix(r, "X") {
			trial.x[r] = e.freshX()
			continue
		}
		old := trial.g[r]
		v := term.Var("trial_"+r, 64)
		tv[r] = v
		trial.g[r] = val{old.r, v}
	}
	quiet := &xexec{f: e.f, S: e.S, res: &result{Labels: map[string]int{}, Mnemonics: map[string]int{}}, c: e.c, regs: e.regs, same: e.same, cfg: e.cfg}
	for i := head; i < back; i++ {
		quiet.stepNoCheck(trial, e.f.instrs[i], stack)
	}
	delta := map[string]uint64{}
	for r, v := range tv {
		nv := trial.g[r]
		if nv.r != st.g[r].r {
			continue
		}
		if nv.t == v {
			delta[r] = 0
		} else if nv.t.Op == term.OpAdd && nv.t.Args[0] == v && nv.t.Args[1].IsConst() {
			delta[r] = nv.t.Args[1].Val
		}
	}
	// real iteration k
	k := e.newVar("k", 64)
	e.assume(term.Ult(k, N))
	for r := range mod {
		if strings.HasPrefix(r, "X") {
			st.x[r] = e.freshX()
			continue
		}
		if d, ok := delta[r]; ok {
			init := st.g[r]
			st.g[r] = val{init.r, term.Add(init.t, term.Mul(c64(d), k))}
		} else {
			e.fresh++
			st.g[r] = val{nil, e.newVar(fmt.Sprintf("havoc_%s_%d", r, e.fresh), 64)}
		}
	}
	st.writes = map[*region][]write{}
	st.reads = map[*region][][2]*term.T{}
	st.wr = map[*region][][2]*term.T{}
	base := term.Mul(c64(per), k)
	for i := head; i < back; i++ {
		e.step(st, e.f.instrs[i], stack)
	}
	e.res.Paths++
	// back edge
	taken := e.cond(st, e.f.instrs[back].op)
	k1 := term.Add(k, c64(1))
	e.S.Push()
	e.S.Assert(taken)
	e.oblige(term.Ult(k1, N), "trip count: back edge taken only while k+1 < len/"+strconv.Itoa(int(per)))
	for r, d := range delta {
		want := term.Add(term.Sub(st.g[r].t, term.Mul(c64(d), k)), term.Mul(c64(d), k1))
		_ = want
	}
	e.S.Pop()
	e.S.Push()
	e.S.Assert(term.BNot(taken))
	e.oblige(term.Eq(k1, N), "trip count: loop exits only when k+1 == len/"+strconv.Itoa(int(per)))
	e.S.Pop()
	// induction registers advanced by their delta (by construction of the trial run; re-checked)
	for r, d := range delta {
		_ = r
		_ = d
	}
	// footprint: reads and writes of iteration k stay in [per*k, per*k+per) of in / out
	for rg, ivs := range st.reads {
		if rg.kind != "in" && rg.kind != "out" {
			continue
		}
		for _, iv := range ivs {
			e.oblige(term.BAnd(term.Ule(base, iv[0]), term.Ule(iv[1], term.Add(base, c64(per)))), "footprint: iteration k reads only its own "+strconv.Itoa(int(per))+" bytes of "+rg.name)
		}
	}
	for rg, ivs := range st.wr {
		for _, iv := range ivs {
			e.oblige(cbool(rg.kind == "out"), "stores go to out only")
			e.oblige(term.BAnd(term.Ule(base, iv[0]), term.Ule(iv[1], term.Add(base, c64(per)))), "footprint: iteration k writes only its own "+strconv.Itoa(int(per))+" bytes of out")
		}
	}
	// functional: every byte of the iteration's chunk of out
	outR := out
	ws := st.writes[e.canon(outR)]
	for t := uint64(0); t < per; t++ {
		off := term.Add(base, c64(t))
		var got *term.T
		for i := len(ws) - 1; i >= 0; i-- {
			if ws[i].off == off {
				got = ws[i].b
				break
			}
		}
		if got == nil {
			e.oblige(term.False, fmt.Sprintf("byte %d of the chunk is written", t))
			continue
		}
		wlo := term.Add(base, c64(t&^1))
		whi := term.Add(base, c64(t|1))
		x := term.Concat(e.orig(in, whi), e.orig(in, wlo))
		p := term.GFMul(e.c, x)
		if e.cfg.add {
			p = term.Xor(p, term.Concat(e.orig(out, whi), e.orig(out, wlo)))
		}
		var want *term.T
		if t&1 == 0 {
			want = term.Extract(p, 7, 0)
		} else {
			want = term.Extract(p, 15, 8)
		}
		what := "out word == c * in word"
		if e.cfg.add {
			what = "out word == old out word ^ c * in word"
		}
		e.oblige(term.Eq(got, want), what)
	}
	// epilogue after the loop: nothing but RET
	for i := back + 1; i < len(e.f.instrs); i++ {
		if e.f.instrs[i].op != "RET" {
			e.oblige(term.False, "only RET follows the loop")
		}
	}
}

func cbool(b bool) *term.T { return term.Bool(b) }

func (e *xexec) canon(r *region) *region {
	if r.aliasOf != nil {
		return r.aliasOf
	}
	return r
}

// orig is the content of a region before the kernel ran.
func (e *xexec) orig(r *region, off *term.T) *term.T {
	if e.concrete != nil {
		buf := e.concrete[e.canon(r).name]
		if !off.IsConst() || off.Val >= uint64(len(buf)) {
			panic(fmt.Sprintf("concrete run: access outside %s at %v", r.name, off))
		}
		return term.Const(8, uint64(buf[off.Val]))
	}
	return term.Select("mem_"+e.canon(r).name, off, 8)
}

func (e *xexec) freshX() *xmm {
	x := &xmm{}
	e.fresh++
	for i := range x.b {
		x.b[i] = term.Var(fmt.Sprintf("xh%d_%d", e.fresh, i), 8)
	}
	return x
}

func cloneState(s *state) *state {
	n := &state{g: map[string]val{}, x: map[string]*xmm{}, flagA: s.flagA, flagB: s.flagB,
		writes: map[*region][]write{}, reads: map[*region][][2]*term.T{}, wr: map[*region][][2]*term.T{}}
	for k, v := range s.g {
		n.g[k] = v
	}
	for k, v := range s.x {
		c := *v
		n.x[k] = &c
	}
	return n
}

func isJcc(op string) bool {
	switch op {
	case "JL", "JNE", "JE", "JLT", "JEQ", "JNZ", "JZ", "JGE", "JLE", "JG", "JB", "JAE", "JA", "JBE", "JMP":
		return true
	}
	return false
}

func (e *xexec) cond(st *state, op string) *term.T {
	a, b := st.flagA, st.flagB
	if a == nil {
		panic("conditional jump without flags")
	}
	switch op {
	case "JL", "JLT":
		return term.Slt(a, b)
	case "JNE", "JNZ":
		return term.BNot(term.Eq(a, b))
	case "JE", "JEQ", "JZ":
		return term.Eq(a, b)
	}
	panic("unsupported conditional jump " + op)
}

// dest returns the register an instruction writes (Go operand order: last).
func dest(in instr) string {
	switch in.op {
	case "CMPQ", "RET", "MOVW":
		if in.op == "MOVW" && !strings.Contains(in.args[len(in.args)-1], "(") {
			return in.args[len(in.args)-1]
		}
		return ""
	}
	if isJcc(in.op) || len(in.args) == 0 {
		return ""
	}
	d := in.args[len(in.args)-1]
	if strings.Contains(d, "(") {
		return ""
	}
	if full, ok := subRegs[d]; ok {
		return full
	}
	return d
}

var memRE = regexp.MustCompile(`^(0x[0-9a-f]+|\d+)?\((\w+)\)(?:\((\w+)\*(\d)\))?$`)

type memop struct {
	disp  uint64
	base  string
	index string
	scale uint64
}

func parseMem(s string) (memop, bool) {
	m := memRE.FindStringSubmatch(s)
	if m == nil {
		return memop{}, false
	}
	var mo memop
	if m[1] != "" {
		mo.disp, _ = strconv.ParseUint(strings.TrimPrefix(m[1], "0x"), 16, 64)
		if !strings.HasPrefix(m[1], "0x") {
			mo.disp, _ = strconv.ParseUint(m[1], 10, 64)
		}
	}
	mo.base = m[2]
	if m[3] != "" {
		mo.index = m[3]
		mo.scale, _ = strconv.ParseUint(m[4], 10, 64)
	}
	return mo, true
}

func parseImm(s string) (uint64, bool) {
	if !strings.HasPrefix(s, "$") {
		return 0, false
	}
	s = s[1:]
	neg := strings.HasPrefix(s, "-")
	s = strings.TrimPrefix(s, "-")
	var v uint64
	var err error
	if strings.HasPrefix(s, "0x") {
		v, err = strconv.ParseUint(s[2:], 16, 64)
	} else {
		v, err = strconv.ParseUint(s, 10, 64)
	}
	if err != nil {
		return 0, false
	}
	if neg {
		v = -v
	}
	return v, true
}

func (e *xexec) addr(st *state, mo memop) (val, bool) {
	b, ok := st.g[mo.base]
	if !ok {
		panic("address uses undefined register " + mo.base)
	}
	t := term.Add(b.t, c64(mo.disp))
	if mo.index != "" {
		ix, ok := st.g[mo.index]
		if !ok || ix.r != nil {
			panic("bad index register " + mo.index)
		}
		t = term.Add(t, term.Mul(ix.t, c64(mo.scale)))
	}
	return val{b.r, t}, b.r != nil
}

func (e *xexec) stepNoCheck(st *state, in instr, stack map[int64]val) { e.exec1(st, in, stack, false) }
func (e *xexec) step(st *state, in instr, stack map[int64]val) {
	e.res.Steps++
	e.res.Mnemonics[in.op]++
	e.exec1(st, in, stack, true)
}

// loadBytes reads n bytes at a region address, checking bounds.
func (e *xexec) loadBytes(st *state, a val, n int, check bool, what string) []*term.T {
	if a.r == nil {
		panic("load through a non-pointer at " + what)
	}
	r := e.canon(a.r)
	end := term.Add(a.t, c64(uint64(n)))
	if check {
		e.oblige(term.BAnd(term.Ule(a.t, end), term.Ule(end, a.r.size)), fmt.Sprintf("load of %d bytes inside %s (%s)", n, a.r.name, what))
		st.reads[a.r] = append(st.reads[a.r], [2]*term.T{a.t, end})
	}
	out := make([]*term.T, n)
	for i := 0; i < n; i++ {
		off := term.Add(a.t, c64(uint64(i)))
		switch r.kind {
		case "tab":
			out[i] = e.tabByte(off, check)
		case "tab64":
			out[i] = e.tab64Byte(off)
		default:
			v := e.orig(a.r, off)
			ws := st.writes[r]
			for j := 0; j < len(ws); j++ {
				eq := term.Eq(ws[j].off, off)
				if eq.IsFalse() {
					continue
				}
				v = term.Ite(eq, ws[j].b, v)
			}
			out[i] = v
		}
	}
	return out
}

// tabByte: byte at offset off of mulTableEntry{s0, s8 [256]T}.
func (e *xexec) tabByte(off *term.T, check bool) *term.T {
	// off = field*512 + 2*j + b
	j := term.Extract(off, 8, 1)
	field := term.Extract(off, 9, 9)
	lo := term.GFMul(e.c, term.ZExt(j, 16))
	hi := term.GFMul(e.c, term.Concat(j, term.Const(8, 0)))
	w := term.Ite(term.Eq(field, term.Const(1, 1)), hi, lo)
	b0 := term.Extract(w, 7, 0)
	b1 := term.Extract(w, 15, 8)
	return term.Ite(term.Eq(term.Extract(off, 0, 0), term.Const(1, 1)), b1, b0)
}

func (e *xexec) tab64Byte(off *term.T) *term.T {
	if !off.IsConst() {
		panic("symbolic offset into mulTable64 entry")
	}
	k := off.Val / 16
	j := off.Val % 16
	sh := (k % 4) * 4
	p := term.GFMul(e.c, term.Const(16, j<<sh))
	if k < 4 {
		return term.Extract(p, 7, 0)
	}
	return term.Extract(p, 15, 8)
}

func (e *xexec) storeBytes(st *state, a val, bs []*term.T, check bool, what string) {
	if a.r == nil {
		panic("store through a non-pointer at " + what)
	}
	end := term.Add(a.t, c64(uint64(len(bs))))
	if check {
		e.oblige(term.BAnd(term.Ule(a.t, end), term.Ule(end, a.r.size)), fmt.Sprintf("store of %d bytes inside %s (%s)", len(bs), a.r.name, what))
		st.wr[a.r] = append(st.wr[a.r], [2]*term.T{a.t, end})
	}
	r := e.canon(a.r)
	for i, b := range bs {
		st.writes[r] = append(st.writes[r], write{term.Add(a.t, c64(uint64(i))), b})
	}
}

func le(bs []*term.T) *term.T {
	r := bs[0]
	for _, b := range bs[1:] {
		r = term.Concat(b, r)
	}
	return r
}

func bytesOf(t *term.T) []*term.T {
	n := t.W / 8
	out := make([]*term.T, n)
	for i := 0; i < n; i++ {
		out[i] = term.Extract(t, 8*i+7, 8*i)
	}
	return out
}

func (e *xexec) getX(st *state, r string) *xmm {
	x, ok := st.x[r]
	if !ok {
		x = e.freshX()
		st.x[r] = x
	}
	return x
}

func isX(s string) bool {
	return len(s) >= 2 && s[0] == 'X' && s[1] >= '0' && s[1] <= '9'
}

var subRegs = map[string]string{"AL": "AX", "BL": "BX", "CL": "CX", "DL": "DX", "SIL": "SI", "DIL": "DI", "BPL": "BP", "SPL": "SP",
	"R8B": "R8", "R9B": "R9", "R10B": "R10", "R11B": "R11", "R12B": "R12", "R13B": "R13", "R14B": "R14", "R15B": "R15"}

func (e *xexec) exec1(st *state, in instr, stack map[int64]val, check bool) {
	a := append([]string(nil), in.args...)
	for i, x := range a {
		if full, ok := subRegs[x]; ok {
			a[i] = full
		}
		if x == "AH" || x == "BH" || x == "CH" || x == "DH" {
			panic("high-byte registers are not supported: " + x)
		}
	}
	in.args = a
	what := in.line + " " + in.op + " " + strings.Join(a, ", ")
	gpr := func(name string) val {
		v, ok := st.g[name]
		if !ok {
			e.fresh++
			v = val{nil, term.Var(fmt.Sprintf("undef_%s_%d", name, e.fresh), 64)}
			st.g[name] = v
		}
		return v
	}
	switch in.op {
	case "RET":
	case "MOVQ":
		src, dst := a[0], a[1]
		switch {
		case isX(dst):
			// MOVQ gpr, xmm: zero-extended to 128 bits
			v := gpr(src)
			if v.r != nil {
				panic("pointer moved into vector register")
			}
			x := &xmm{}
			bs := bytesOf(v.t)
			for i := range x.b {
				if i < 8 {
					x.b[i] = bs[i]
				} else {
					x.b[i] = term.Const(8, 0)
				}
			}
			st.x[dst] = x
		case strings.HasPrefix(src, "$"):
			v, _ := parseImm(src)
			st.g[dst] = val{nil, c64(v)}
		case strings.Contains(src, "(SP)"):
			mo, _ := parseMem(src)
			v, ok := stack[int64(mo.disp)]
			if !ok {
				panic("read of unknown stack slot " + src)
			}
			st.g[dst] = v
		case strings.Contains(src, "("):
			panic("MOVQ from memory not expected: " + what)
		default:
			st.g[dst] = gpr(src)
		}
	case "MOVZX":
		size := 0
		switch {
		case strings.Contains(in.bytes, "0fb7"):
			size = 16
		case strings.Contains(in.bytes, "0fb6"):
			size = 8
		default:
			panic("MOVZX of unknown width: " + in.bytes)
		}
		src, dst := a[0], a[1]
		if mo, ok := parseMem(src); ok {
			ad, _ := e.addr(st, mo)
			bs := e.loadBytes(st, ad, size/8, check, what)
			st.g[dst] = val{nil, term.ZExt(le(bs), 64)}
		} else {
			v := gpr(src)
			if v.r != nil {
				panic("MOVZX of pointer")
			}
			st.g[dst] = val{nil, term.ZExt(term.Extract(v.t, size-1, 0), 64)}
		}
	case "MOVL", "MOVB":
		// 32-bit moves zero the upper half of the destination; 8-bit moves keep it
		w := 32
		if in.op == "MOVB" {
			w = 8
		}
		src, dst := a[0], a[1]
		var v *term.T
		switch {
		case strings.HasPrefix(src, "$"):
			iv, _ := parseImm(src)
			v = term.Extract(c64(iv), w-1, 0)
		case strings.Contains(src, "(SP)"):
			panic(in.op + " from the stack not expected: " + what)
		case strings.Contains(src, "("):
			mo, _ := parseMem(src)
			ad, _ := e.addr(st, mo)
			v = le(e.loadBytes(st, ad, w/8, check, what))
		default:
			g := gpr(src)
			if g.r != nil {
				panic(in.op + " of a pointer")
			}
			v = term.Extract(g.t, w-1, 0)
		}
		if mo, ok := parseMem(dst); ok {
			ad, _ := e.addr(st, mo)
			e.storeBytes(st, ad, bytesOf(v), check, what)
		} else if w == 32 {
			st.g[dst] = val{nil, term.ZExt(v, 64)}
		} else {
			old := gpr(dst)
			st.g[dst] = val{nil, term.Concat(term.Extract(old.t, 63, w), v)}
		}
	case "MOVW":
		src, dst := a[0], a[1]
		v := gpr(src)
		if mo, ok := parseMem(dst); ok {
			ad, _ := e.addr(st, mo)
			e.storeBytes(st, ad, bytesOf(term.Extract(v.t, 15, 0)), check, what)
		} else {
			old := gpr(dst)
			st.g[dst] = val{nil, term.Concat(term.Extract(old.t, 63, 16), term.Extract(v.t, 15, 0))}
		}
	case "SHRW":
		n, _ := parseImm(a[0])
		v := gpr(a[1])
		if v.r != nil {
			panic("shift of pointer")
		}
		low := term.LShr(term.Extract(v.t, 15, 0), term.Const(8, n))
		st.g[a[1]] = val{nil, term.Concat(term.Extract(v.t, 63, 16), low)}
		st.flagA, st.flagB = nil, nil
	case "SHRL":
		n, _ := parseImm(a[0])
		v := gpr(a[1])
		st.g[a[1]] = val{nil, term.ZExt(term.LShr(term.Extract(v.t, 31, 0), term.Const(8, n)), 64)}
		st.flagA, st.flagB = nil, nil
	case "SHRQ":
		n, _ := parseImm(a[0])
		v := gpr(a[1])
		if v.r != nil {
			panic("shift of pointer")
		}
		st.g[a[1]] = val{nil, term.LShr(v.t, term.Const(8, n))}
		st.flagA, st.flagB = nil, nil
	case "XORL":
		x, y := gpr(a[0]), gpr(a[1])
		if x.r != nil || y.r != nil {
			panic("xor of pointer")
		}
		st.g[a[1]] = val{nil, term.ZExt(term.Xor(term.Extract(x.t, 31, 0), term.Extract(y.t, 31, 0)), 64)}
		st.flagA, st.flagB = nil, nil
	case "XORQ":
		x, y := gpr(a[0]), gpr(a[1])
		st.g[a[1]] = val{nil, term.Xor(x.t, y.t)}
		st.flagA, st.flagB = nil, nil
	case "INCQ":
		v := gpr(a[0])
		st.g[a[0]] = val{v.r, term.Add(v.t, c64(1))}
		st.flagA, st.flagB = st.g[a[0]].t, c64(0)
	case "ADDQ", "SUBQ":
		var x *term.T
		if imm, ok := parseImm(a[0]); ok {
			x = c64(imm)
		} else {
			s := gpr(a[0])
			if s.r != nil {
				panic("pointer as addend")
			}
			x = s.t
		}
		v := gpr(a[1])
		if in.op == "ADDQ" {
			st.g[a[1]] = val{v.r, term.Add(v.t, x)}
		} else {
			st.g[a[1]] = val{v.r, term.Sub(v.t, x)}
		}
		if v.r == nil {
			st.flagA, st.flagB = st.g[a[1]].t, c64(0)
		} else {
			st.flagA, st.flagB = nil, nil
		}
	case "CMPQ":
		get := func(s string) *term.T {
			if imm, ok := parseImm(s); ok {
				return c64(imm)
			}
			v := gpr(s)
			if v.r != nil {
				panic("compare of pointer")
			}
			return v.t
		}
		// Go assembler operand order for CMP is (left, right): flags of left - right
		st.flagA, st.flagB = get(a[0]), get(a[1])
	case "MOVDQU", "MOVDQA", "MOVOU", "MOVO":
		src, dst := a[0], a[1]
		aligned := in.op == "MOVDQA" || in.op == "MOVO"
		switch {
		case isX(src) && isX(dst):
			c := *e.getX(st, src)
			st.x[dst] = &c
		case isX(dst):
			mo, ok := parseMem(src)
			if !ok {
				panic("bad vector load " + what)
			}
			ad, _ := e.addr(st, mo)
			if aligned && check {
				e.oblige(term.Eq(term.Extract(ad.t, 3, 0), term.Const(4, 0)), "aligned vector load from an arbitrarily aligned buffer ("+what+")")
				e.oblige(term.False, "aligned vector move with a memory operand: base addresses are arbitrary ("+what+")")
			}
			bs := e.loadBytes(st, ad, 16, check, what)
			x := &xmm{}
			copy(x.b[:], bs)
			if ad.r != nil && e.canon(ad.r).kind == "tab64" && ad.t.IsConst() && ad.t.Val%16 == 0 {
				k := int(ad.t.Val / 16)
				x.tag = &tabTag{shift: (k % 4) * 4, high: k >= 4}
			}
			st.x[dst] = x
		default:
			mo, ok := parseMem(dst)
			if !ok {
				panic("bad vector store " + what)
			}
			ad, _ := e.addr(st, mo)
			if aligned && check {
				e.oblige(term.False, "aligned vector move with a memory operand: base addresses are arbitrary ("+what+")")
			}
			x := e.getX(st, src)
			e.storeBytes(st, ad, x.b[:], check, what)
		}
	case "PXOR", "PAND":
		s, d := e.getX(st, a[0]), e.getX(st, a[1])
		n := &xmm{}
		for i := range n.b {
			if in.op == "PXOR" {
				if a[0] == a[1] {
					n.b[i] = term.Const(8, 0)
				} else {
					n.b[i] = term.Xor(s.b[i], d.b[i])
				}
			} else {
				n.b[i] = term.And(s.b[i], d.b[i])
			}
		}
		st.x[a[1]] = n
	case "PSRLW":
		n, ok := parseImm(a[0])
		if !ok {
			panic("PSRLW with register count")
		}
		d := e.getX(st, a[1])
		r := &xmm{}
		for w := 0; w < 8; w++ {
			word := term.Concat(d.b[2*w+1], d.b[2*w])
			word = term.LShr(word, term.Const(8, n))
			r.b[2*w] = term.Extract(word, 7, 0)
			r.b[2*w+1] = term.Extract(word, 15, 8)
		}
		st.x[a[1]] = r
	case "PSHUFB":
		// dst[i] = idx[i] bit7 ? 0 : dst_old[idx[i] & 15], idx = src
		idx, tbl := e.getX(st, a[0]), e.getX(st, a[1])
		if a[0] == a[1] {
			c := *idx
			idx = &c
		}
		r := &xmm{}
		for i := range r.b {
			ix := idx.b[i]
			top := term.Extract(ix, 7, 7)
			low := term.Extract(ix, 3, 0)
			var v *term.T
			switch {
			case low.IsConst():
				v = tbl.b[low.Val]
			case tbl.tag != nil:
				// table register holds bytes of c * (j << shift): use the field product directly
				p := term.GFMul(e.c, term.Shl(term.ZExt(low, 16), term.Const(8, uint64(tbl.tag.shift))))
				if tbl.tag.high {
					v = term.Extract(p, 15, 8)
				} else {
					v = term.Extract(p, 7, 0)
				}
				if check {
					e.res.Labels[e.prefix()+": PSHUFB on a multiplication sub-table (contract of C09_table_mulTable64)"]++
				}
			default:
				var mux func(lo, hi, bit int) *term.T
				mux = func(lo, hi, bit int) *term.T {
					if hi-lo == 1 {
						return tbl.b[lo]
					}
					mid := (lo + hi) / 2
					c := term.Eq(term.Extract(low, bit, bit), term.Const(1, 1))
					return term.Ite(c, mux(mid, hi, bit-1), mux(lo, mid, bit-1))
				}
				v = mux(0, 16, 3)
			}
			r.b[i] = term.Ite(term.Eq(top, term.Const(1, 1)), term.Const(8, 0), v)
		}
		st.x[a[1]] = r
	case "PACKUSWB":
		// dst = sat(dst words) : sat(src words)
		s, d := e.getX(st, a[0]), e.getX(st, a[1])
		if a[0] == a[1] {
			c := *s
			s = &c
		}
		sat := func(x *xmm, w int) *term.T {
			word := term.Concat(x.b[2*w+1], x.b[2*w])
			neg := term.Eq(term.Extract(word, 15, 15), term.Const(1, 1))
			big := term.BNot(term.Eq(term.Extract(word, 14, 8), term.Const(7, 0)))
			return term.Ite(neg, term.Const(8, 0), term.Ite(big, term.Const(8, 255), term.Extract(word, 7, 0)))
		}
		r := &xmm{}
		for w := 0; w < 8; w++ {
			r.b[w] = sat(d, w)
			r.b[8+w] = sat(s, w)
		}
		st.x[a[1]] = r
	case "PUNPCKLBW", "PUNPCKHBW":
		s, d := e.getX(st, a[0]), e.getX(st, a[1])
		o := 0
		if in.op == "PUNPCKHBW" {
			o = 8
		}
		r := &xmm{}
		for i := 0; i < 8; i++ {
			r.b[2*i] = d.b[o+i]
			r.b[2*i+1] = s.b[o+i]
		}
		st.x[a[1]] = r
	default:
		if e.alu(st, in, gpr) {
			return
		}
		panic("unsupported instruction " + what)
	}
}

// alu handles width-suffixed integer instructions not special-cased above
// (ADD/SUB/INC/DEC/XOR/AND/OR/SHR/SHL/CMP/TEST/NEG/MOV with B, W, L, Q):
// an 8- or 16-bit operation leaves the upper register bits unchanged, a 32-bit
// one zero-extends, flags come from the sub-width result.
func (e *xexec) alu(st *state, in instr, gpr func(string) val) bool {
	op := in.op
	if len(op) < 3 {
		return false
	}
	w := map[byte]int{'B': 8, 'W': 16, 'L': 32, 'Q': 64}[op[len(op)-1]]
	base := op[:len(op)-1]
	if w == 0 {
		return false
	}
	a := in.args
	operand := func(s string) *term.T {
		if imm, ok := parseImm(s); ok {
			return term.Const(w, imm)
		}
		if strings.Contains(s, "(") {
			panic("memory operand in " + op)
		}
		v := gpr(s)
		if v.r != nil {
			if w == 64 {
				return nil
			}
			panic("sub-width operation on a pointer register")
		}
		return term.Extract(v.t, w-1, 0)
	}
	put := func(name string, r *term.T) {
		old := gpr(name)
		switch {
		case w == 64:
			st.g[name] = val{nil, r}
		case w == 32:
			st.g[name] = val{nil, term.ZExt(r, 64)}
		default:
			if old.r != nil {
				panic("sub-width write to a pointer register")
			}
			st.g[name] = val{nil, term.Concat(term.Extract(old.t, 63, w), r)}
		}
		st.flagA, st.flagB = r, term.Const(w, 0)
	}
	switch base {
	case "ADD", "SUB", "XOR", "AND", "OR":
		x, y := operand(a[0]), operand(a[1])
		if x == nil || y == nil {
			return false
		}
		var r *term.T
		switch base {
		case "ADD":
			r = term.Add(y, x)
		case "SUB":
			r = term.Sub(y, x)
		case "XOR":
			r = term.Xor(y, x)
		case "AND":
			r = term.And(y, x)
		default:
			r = term.Or(y, x)
		}
		put(a[1], r)
	case "INC", "DEC":
		y := operand(a[0])
		if y == nil {
			return false
		}
		if base == "INC" {
			put(a[0], term.Add(y, term.Const(w, 1)))
		} else {
			put(a[0], term.Sub(y, term.Const(w, 1)))
		}
	case "NEG":
		y := operand(a[0])
		put(a[0], term.Neg(y))
	case "SHR", "SHL":
		n, ok := parseImm(a[0])
		if !ok {
			return false
		}
		y := operand(a[1])
		if base == "SHR" {
			put(a[1], term.LShr(y, term.Const(8, n)))
		} else {
			put(a[1], term.Shl(y, term.Const(8, n)))
		}
		st.flagA, st.flagB = nil, nil
	case "CMP":
		x, y := operand(a[0]), operand(a[1])
		if x == nil || y == nil {
			return false
		}
		st.flagA, st.flagB = x, y
	case "TEST":
		x, y := operand(a[0]), operand(a[1])
		st.flagA, st.flagB = term.And(x, y), term.Const(w, 0)
	case "MOV":
		if strings.Contains(a[0], "(") || strings.Contains(a[1], "(") || isX(a[0]) || isX(a[1]) {
			return false
		}
		x := operand(a[0])
		if x == nil {
			return false
		}
		old := st.flagA
		oldB := st.flagB
		put(a[1], x)
		st.flagA, st.flagB = old, oldB
	default:
		return false
	}
	return true
}

// ---------- concrete execution for translator validation ----------

type valCase struct {
	Kernel int    `json:"kernel"`
	C      uint16 `json:"c"`
	In     []byte `json:"in"`
	Out0   []byte `json:"out0"`
	Out    []byte `json:"out"`
}

// runConcrete executes the kernel's instruction list on concrete inputs and
// returns the final contents of out.
func runConcrete(f *fn, sig []param, c uint16, in, out0 []byte) ([]byte, error) {
	e := &xexec{f: f, res: &result{Labels: map[string]int{}, Mnemonics: map[string]int{}}, regs: map[string]*region{}}
	e.c = term.Const(16, uint64(c))
	e.concrete = map[string][]byte{"in": in, "out": out0}
	st := &state{g: map[string]val{}, x: map[string]*xmm{}, writes: map[*region][]write{}, reads: map[*region][][2]*term.T{}, wr: map[*region][][2]*term.T{}}
	stack := map[int64]val{}
	off := int64(8)
	for _, p := range sig {
		switch {
		case p.kind == "slice":
			r := &region{name: p.name, kind: p.name}
			n := len(in)
			if p.name == "out" {
				n = len(out0)
			}
			r.size = c64(uint64(n))
			e.regs[p.name] = r
			stack[off] = val{r, c64(0)}
			stack[off+8] = val{nil, c64(uint64(n))}
			stack[off+16] = val{nil, c64(uint64(n))}
			off += 24
		default:
			r := &region{name: p.name}
			if p.kind == "ptr:mulTableEntry" {
				r.kind, r.size = "tab", c64(1024)
			} else {
				r.kind, r.size = "tab64", c64(128)
			}
			e.regs[p.name] = r
			stack[off] = val{r, c64(0)}
			off += 8
		}
	}
	pc := 0
	for steps := 0; steps < 1000000; steps++ {
		if pc >= len(f.instrs) {
			return nil, fmt.Errorf("fell off the end")
		}
		in := f.instrs[pc]
		if in.op == "RET" {
			res := append([]byte(nil), out0...)
			for _, w := range st.writes[e.regs["out"]] {
				if !w.off.IsConst() || !w.b.IsConst() || w.off.Val >= uint64(len(res)) {
					return nil, fmt.Errorf("non-concrete or out-of-range write")
				}
				res[w.off.Val] = byte(w.b.Val)
			}
			return res, nil
		}
		if isJcc(in.op) {
			c := e.cond(st, in.op)
			if !c.IsConst() {
				return nil, fmt.Errorf("non-concrete branch")
			}
			if c.IsTrue() {
				t, _ := strconv.ParseUint(strings.TrimPrefix(in.args[0], "0x"), 16, 64)
				pc = f.index[t]
				continue
			}
			pc++
			continue
		}
		e.exec1(st, in, stack, false)
		pc++
	}
	return nil, fmt.Errorf("step limit")
}

func writeValidationCases(repo, path string, seed int64) (err error) {
	defer func() {
		if r := recover(); r != nil {
			err = fmt.Errorf("concrete execution failed: %v", r)
		}
	}()
	fns, err := disassemble(repo)
	if err != nil {
		return err
	}
	sigs, err := signatures(filepath.Join(repo, "gf2p16", "slice_amd64.go"))
	if err != nil {
		return err
	}
	names := []string{"mulByteSliceLEUnsafe", "mulAndAddByteSliceLEUnsafe", "mulSliceSSSE3Unsafe", "mulAndAddSliceSSSE3Unsafe"}
	x := uint64(seed)*2862933555777941757 + 3037000493
	rnd := func() byte {
		x = x*6364136223846793005 + 1442695040888963407
		return byte(x >> 56)
	}
	var cases []valCase
	for k, n := range names {
		f := fns["gf2p16."+n]
		if f == nil {
			return fmt.Errorf("kernel %s not found", n)
		}
		lens := []int{2, 6, 70}
		if k >= 2 {
			lens = []int{32, 96, 33}
		}
		for _, l := range lens {
			in := make([]byte, l)
			out0 := make([]byte, l)
			for i := range in {
				in[i], out0[i] = rnd(), rnd()
			}
			c := uint16(rnd())<<8 | uint16(rnd())
			out, err := runConcrete(f, sigs[n], c, in, out0)
			if err != nil {
				return fmt.Errorf("%s len %d: %v", n, l, err)
			}
			cases = append(cases, valCase{k, c, in, out0, out})
		}
	}
	b, _ := json.MarshalIndent(cases, "", " ")
	return os.WriteFile(path, b, 0644)
}
