package term

import (
	"fmt"
	"strings"
)

// Preamble is sent once after every (reset).
const Preamble = `(set-option :produce-models true)
(define-fun gfred ((p (_ BitVec 32)) (k (_ BitVec 32))) (_ BitVec 32)
  (ite (= ((_ extract 0 0) (bvlshr p (bvadd k #x00000010))) #b1) (bvxor p (bvshl #x0001100b k)) p))
(define-fun gfmul ((a (_ BitVec 16)) (b (_ BitVec 16))) (_ BitVec 16)
  (let ((za ((_ zero_extend 16) a)))
  (let ((p (bvxor
    (ite (= ((_ extract 0 0) b) #b1) za #x00000000)
    (ite (= ((_ extract 1 1) b) #b1) (bvshl za #x00000001) #x00000000)
    (ite (= ((_ extract 2 2) b) #b1) (bvshl za #x00000002) #x00000000)
    (ite (= ((_ extract 3 3) b) #b1) (bvshl za #x00000003) #x00000000)
    (ite (= ((_ extract 4 4) b) #b1) (bvshl za #x00000004) #x00000000)
    (ite (= ((_ extract 5 5) b) #b1) (bvshl za #x00000005) #x00000000)
    (ite (= ((_ extract 6 6) b) #b1) (bvshl za #x00000006) #x00000000)
    (ite (= ((_ extract 7 7) b) #b1) (bvshl za #x00000007) #x00000000)
    (ite (= ((_ extract 8 8) b) #b1) (bvshl za #x00000008) #x00000000)
    (ite (= ((_ extract 9 9) b) #b1) (bvshl za #x00000009) #x00000000)
    (ite (= ((_ extract 10 10) b) #b1) (bvshl za #x0000000a) #x00000000)
    (ite (= ((_ extract 11 11) b) #b1) (bvshl za #x0000000b) #x00000000)
    (ite (= ((_ extract 12 12) b) #b1) (bvshl za #x0000000c) #x00000000)
    (ite (= ((_ extract 13 13) b) #b1) (bvshl za #x0000000d) #x00000000)
    (ite (= ((_ extract 14 14) b) #b1) (bvshl za #x0000000e) #x00000000)
    (ite (= ((_ extract 15 15) b) #b1) (bvshl za #x0000000f) #x00000000))))
  (let ((p14 (gfred p #x0000000e)))
  (let ((p13 (gfred p14 #x0000000d)))
  (let ((p12 (gfred p13 #x0000000c)))
  (let ((p11 (gfred p12 #x0000000b)))
  (let ((p10 (gfred p11 #x0000000a)))
  (let ((p9 (gfred p10 #x00000009)))
  (let ((p8 (gfred p9 #x00000008)))
  (let ((p7 (gfred p8 #x00000007)))
  (let ((p6 (gfred p7 #x00000006)))
  (let ((p5 (gfred p6 #x00000005)))
  (let ((p4 (gfred p5 #x00000004)))
  (let ((p3 (gfred p4 #x00000003)))
  (let ((p2 (gfred p3 #x00000002)))
  (let ((p1 (gfred p2 #x00000001)))
  (let ((p0 (gfred p1 #x00000000)))
  ((_ extract 15 0) p0)))))))))))))))))))
(define-fun gdiv ((a Int) (b Int)) Int
  (ite (>= a 0) (ite (> b 0) (div a b) (- (div a (- b))))
                (ite (> b 0) (- (div (- a) b)) (div (- a) (- b)))))
(define-fun gmod ((a Int) (b Int)) Int (- a (* b (gdiv a b))))
`

// ConcreteMD5 records digests computed natively on concrete messages, so that
// symbolic hashes can be related to them (injective model).
type ConcreteDigest struct {
	Msg    []byte
	Digest [16]byte
}

var (
	ConcreteMD5   []ConcreteDigest
	concreteMD5By = map[[16]byte]int{}
)

func NoteConcreteMD5(msg []byte, d [16]byte) {
	if _, ok := concreteMD5By[d]; ok {
		return
	}
	concreteMD5By[d] = len(ConcreteMD5)
	ConcreteMD5 = append(ConcreteMD5, ConcreteDigest{append([]byte(nil), msg...), d})
}

// LookupConcreteMD5 returns the message of a known digest.
func LookupConcreteMD5(d [16]byte) ([]byte, bool) {
	i, ok := concreteMD5By[d]
	if !ok {
		return nil, false
	}
	return ConcreteMD5[i].Msg, true
}

func digestLit(d [16]byte) string {
	var sb strings.Builder
	sb.WriteString("#x")
	for i := 15; i >= 0; i-- {
		fmt.Fprintf(&sb, "%02x", d[i])
	}
	return sb.String()
}

// Printer emits SMT-LIB2 definitions for a DAG of terms exactly once per
// solver scope.
type Printer struct {
	emitted  map[uint32]bool
	order    []uint32 // emission order, for scope pops
	scopes   []int
	md5ByKey map[string]int
	md5Msgs  [][]*T
	md5Order []int
	md5Scope []int
	selDecl  map[string]bool
	selOrder []string
	selScope []int
	n        int
	buf      strings.Builder
}

func NewPrinter() *Printer {
	return &Printer{emitted: map[uint32]bool{}, md5ByKey: map[string]int{}, selDecl: map[string]bool{}}
}

func (p *Printer) Push() {
	p.scopes = append(p.scopes, len(p.order))
	p.md5Scope = append(p.md5Scope, len(p.md5Order))
	p.selScope = append(p.selScope, len(p.selOrder))
}

func (p *Printer) Pop() {
	n := p.scopes[len(p.scopes)-1]
	p.scopes = p.scopes[:len(p.scopes)-1]
	for _, id := range p.order[n:] {
		delete(p.emitted, id)
	}
	p.order = p.order[:n]
	m := p.md5Scope[len(p.md5Scope)-1]
	p.md5Scope = p.md5Scope[:len(p.md5Scope)-1]
	for _, k := range p.md5Order[m:] {
		for key, v := range p.md5ByKey {
			if v == k {
				delete(p.md5ByKey, key)
			}
		}
	}
	p.md5Order = p.md5Order[:m]
	s := p.selScope[len(p.selScope)-1]
	p.selScope = p.selScope[:len(p.selScope)-1]
	for _, k := range p.selOrder[s:] {
		delete(p.selDecl, k)
	}
	p.selOrder = p.selOrder[:s]
}

// Take returns and clears the pending definition text.
func (p *Printer) Take() string {
	s := p.buf.String()
	p.buf.Reset()
	return s
}

func sortName(w int) string {
	switch w {
	case 0:
		return "Bool"
	case -1:
		return "Int"
	}
	return fmt.Sprintf("(_ BitVec %d)", w)
}

func constLit(t *T) string {
	switch t.W {
	case 0:
		if t.Val != 0 {
			return "true"
		}
		return "false"
	case -1:
		v := int64(t.Val)
		if v < 0 {
			if v == -1<<63 {
				return "(- 9223372036854775808)"
			}
			return fmt.Sprintf("(- %d)", -v)
		}
		return fmt.Sprintf("%d", v)
	}
	return fmt.Sprintf("(_ bv%d %d)", t.Val, t.W)
}

func smtName(n string) string {
	ok := true
	for _, c := range n {
		if !(c >= 'a' && c <= 'z' || c >= 'A' && c <= 'Z' || c >= '0' && c <= '9' || c == '_' || c == '.') {
			ok = false
		}
	}
	if ok {
		return n
	}
	return "|" + n + "|"
}

// Ref makes sure t is defined and returns the text that refers to it.
func (p *Printer) Ref(t *T) string {
	switch t.Op {
	case OpConst:
		return constLit(t)
	}
	if !p.emitted[t.ID] {
		p.define(t)
	}
	if t.Op == OpVar {
		return smtName(t.Name)
	}
	return fmt.Sprintf("n%d", t.ID)
}

func (p *Printer) mark(t *T) {
	p.emitted[t.ID] = true
	p.order = append(p.order, t.ID)
}

func (p *Printer) define(root *T) {
	// iterative post-order to avoid deep recursion
	type fr struct {
		t *T
		i int
	}
	stack := []fr{{root, 0}}
	for len(stack) > 0 {
		f := &stack[len(stack)-1]
		t := f.t
		if p.emitted[t.ID] || t.Op == OpConst {
			stack = stack[:len(stack)-1]
			continue
		}
		if f.i < len(t.Args) {
			a := t.Args[f.i]
			f.i++
			if !p.emitted[a.ID] && a.Op != OpConst {
				stack = append(stack, fr{a, 0})
			}
			continue
		}
		p.emit(t)
		p.mark(t)
		stack = stack[:len(stack)-1]
	}
}

func (p *Printer) emit(t *T) {
	b := &p.buf
	if t.Op == OpVar {
		fmt.Fprintf(b, "(declare-const %s %s)\n", smtName(t.Name), sortName(t.W))
		return
	}
	args := make([]string, len(t.Args))
	for i, a := range t.Args {
		args[i] = p.Ref(a)
	}
	var body string
	switch t.Op {
	case OpExtract:
		body = fmt.Sprintf("((_ extract %d %d) %s)", t.Hi, t.Lo, args[0])
	case OpSExt:
		body = fmt.Sprintf("((_ sign_extend %d) %s)", t.W-t.Args[0].W, args[0])
	case OpMD5Byte:
		var kb strings.Builder
		for _, a := range t.Args {
			fmt.Fprintf(&kb, "%d,", a.ID)
		}
		key := kb.String()
		k, ok := p.md5ByKey[key]
		if !ok {
			p.n++
			k = p.n
			p.md5ByKey[key] = k
			for len(p.md5Msgs) <= k {
				p.md5Msgs = append(p.md5Msgs, nil)
			}
			p.md5Msgs[k] = t.Args
			fmt.Fprintf(b, "(declare-const md5_%d (_ BitVec 128))\n", k)
			// injectivity against digests of concrete messages
			for _, cd := range ConcreteMD5 {
				if len(cd.Msg) != len(t.Args) {
					// different lengths: distinct digests; left out (weaker, still sound) to keep queries small
					continue
				}
				var eqs []string
				for i := range cd.Msg {
					eqs = append(eqs, fmt.Sprintf("(= %s (_ bv%d 8))", args[i], cd.Msg[i]))
				}
				switch len(eqs) {
				case 0:
					fmt.Fprintf(b, "(assert (= md5_%d %s))\n", k, digestLit(cd.Digest))
				case 1:
					fmt.Fprintf(b, "(assert (= (= md5_%d %s) %s))\n", k, digestLit(cd.Digest), eqs[0])
				default:
					fmt.Fprintf(b, "(assert (= (= md5_%d %s) (and %s)))\n", k, digestLit(cd.Digest), strings.Join(eqs, " "))
				}
			}
			// injectivity against every live earlier hash
			for _, j := range p.md5Order {
				other := p.md5Msgs[j]
				if len(other) != len(t.Args) {
					fmt.Fprintf(b, "(assert (distinct md5_%d md5_%d))\n", k, j)
					continue
				}
				if len(other) == 0 {
					fmt.Fprintf(b, "(assert (= md5_%d md5_%d))\n", k, j)
					continue
				}
				var eqs []string
				for i := range other {
					if other[i] == t.Args[i] {
						continue
					}
					eqs = append(eqs, fmt.Sprintf("(= %s %s)", p.Ref(other[i]), args[i]))
				}
				switch len(eqs) {
				case 0:
					fmt.Fprintf(b, "(assert (= md5_%d md5_%d))\n", k, j)
				case 1:
					fmt.Fprintf(b, "(assert (= (= md5_%d md5_%d) %s))\n", k, j, eqs[0])
				default:
					fmt.Fprintf(b, "(assert (= (= md5_%d md5_%d) (and %s)))\n", k, j, strings.Join(eqs, " "))
				}
			}
			p.md5Order = append(p.md5Order, k)
		}
		body = fmt.Sprintf("((_ extract %d %d) md5_%d)", 8*t.Lo+7, 8*t.Lo, k)
	case OpSelect:
		key := fmt.Sprintf("%s/%d/%d", t.Name, t.Args[0].W, t.W)
		if !p.selDecl[key] {
			p.selDecl[key] = true
			p.selOrder = append(p.selOrder, key)
			fmt.Fprintf(b, "(declare-fun %s (%s) %s)\n", smtName(t.Name), sortName(t.Args[0].W), sortName(t.W))
		}
		body = fmt.Sprintf("(%s %s)", smtName(t.Name), args[0])
	case OpIDiv:
		body = fmt.Sprintf("(gdiv %s %s)", args[0], args[1])
	case OpIMod:
		body = fmt.Sprintf("(gmod %s %s)", args[0], args[1])
	case OpBV2Int:
		if t.Lo == 1 {
			w := t.Args[0].W
			body = fmt.Sprintf("(ite (= ((_ extract %d %d) %s) #b1) (- (bv2nat %s) %s) (bv2nat %s))", w-1, w-1, args[0], args[0], pow2(w), args[0])
		} else {
			body = fmt.Sprintf("(bv2nat %s)", args[0])
		}
	case OpInt2BV:
		body = fmt.Sprintf("((_ int2bv %d) %s)", t.W, args[0])
	case OpEq:
		body = fmt.Sprintf("(= %s %s)", args[0], args[1])
	default:
		n := opNames[t.Op]
		if n == "" {
			panic(fmt.Sprintf("smt: cannot print op %d", t.Op))
		}
		body = "(" + n + " " + strings.Join(args, " ") + ")"
	}
	fmt.Fprintf(b, "(define-fun n%d () %s %s)\n", t.ID, sortName(t.W), body)
}

func pow2(w int) string {
	if w < 63 {
		return fmt.Sprintf("%d", int64(1)<<uint(w))
	}
	if w == 63 {
		return "9223372036854775808"
	}
	return "18446744073709551616"
}

// VarsOf returns the variables occurring in the given terms, in ID order.
func VarsOf(ts ...*T) []*T {
	seen := map[uint32]bool{}
	var out []*T
	var stack []*T
	stack = append(stack, ts...)
	for len(stack) > 0 {
		t := stack[len(stack)-1]
		stack = stack[:len(stack)-1]
		if seen[t.ID] {
			continue
		}
		seen[t.ID] = true
		if t.Op == OpVar {
			out = append(out, t)
		}
		stack = append(stack, t.Args...)
	}
	return out
}

// Size returns the number of distinct nodes reachable from ts.
func Size(ts ...*T) int {
	seen := map[uint32]bool{}
	var stack []*T
	stack = append(stack, ts...)
	for len(stack) > 0 {
		t := stack[len(stack)-1]
		stack = stack[:len(stack)-1]
		if seen[t.ID] {
			continue
		}
		seen[t.ID] = true
		stack = append(stack, t.Args...)
	}
	return len(seen)
}
