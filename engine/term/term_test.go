package term

import (
	"math/rand"
	"testing"
)

type pair struct {
	t *T
	f func(m map[string]uint64) uint64
}

func mk2(w int, v uint64) uint64 { return v & mask(w) }

func gen(r *rand.Rand, w int, depth int) pair {
	if depth == 0 || r.Intn(6) == 0 {
		if r.Intn(3) == 0 {
			v := r.Uint64()
			if r.Intn(2) == 0 {
				v = uint64(r.Intn(4))
			}
			return pair{Const(w, v), func(map[string]uint64) uint64 { return mk2(w, v) }}
		}
		names := []string{"a", "b", "c"}
		n := names[r.Intn(3)]
		vw := []int{8, 16, 32, 64}[r.Intn(4)]
		name := n + string(rune('0'+vw/8))
		v := Var(name, vw)
		f := func(m map[string]uint64) uint64 { return m[name] & mask(vw) }
		switch {
		case vw == w:
			return pair{v, f}
		case vw > w:
			lo := r.Intn(vw - w + 1)
			return pair{Extract(v, lo+w-1, lo), func(m map[string]uint64) uint64 { return mk2(w, f(m)>>uint(lo)) }}
		default:
			if r.Intn(2) == 0 {
				return pair{ZExt(v, w), f}
			}
			return pair{SExt(v, w), func(m map[string]uint64) uint64 { return mk2(w, uint64(sx(f(m), vw))) }}
		}
	}
	x := gen(r, w, depth-1)
	y := gen(r, w, depth-1)
	switch r.Intn(14) {
	case 0:
		return pair{Add(x.t, y.t), func(m map[string]uint64) uint64 { return mk2(w, x.f(m)+y.f(m)) }}
	case 1:
		return pair{Sub(x.t, y.t), func(m map[string]uint64) uint64 { return mk2(w, x.f(m)-y.f(m)) }}
	case 2:
		return pair{Mul(x.t, y.t), func(m map[string]uint64) uint64 { return mk2(w, x.f(m)*y.f(m)) }}
	case 3:
		return pair{And(x.t, y.t), func(m map[string]uint64) uint64 { return x.f(m) & y.f(m) }}
	case 4:
		return pair{Or(x.t, y.t), func(m map[string]uint64) uint64 { return x.f(m) | y.f(m) }}
	case 5:
		return pair{Xor(x.t, y.t), func(m map[string]uint64) uint64 { return x.f(m) ^ y.f(m) }}
	case 6:
		return pair{Not(x.t), func(m map[string]uint64) uint64 { return mk2(w, ^x.f(m)) }}
	case 7:
		k := uint64(r.Intn(w + 2))
		return pair{Shl(x.t, Const(8, k)), func(m map[string]uint64) uint64 {
			if k >= uint64(w) {
				return 0
			}
			return mk2(w, x.f(m)<<k)
		}}
	case 8:
		k := uint64(r.Intn(w + 2))
		return pair{LShr(x.t, Const(8, k)), func(m map[string]uint64) uint64 {
			if k >= uint64(w) {
				return 0
			}
			return x.f(m) >> k
		}}
	case 9:
		return pair{Shl(x.t, y.t), func(m map[string]uint64) uint64 {
			if y.f(m) >= uint64(w) {
				return 0
			}
			return mk2(w, x.f(m)<<y.f(m))
		}}
	case 10:
		c := Ult(x.t, y.t)
		z := gen(r, w, depth-1)
		return pair{Ite(c, x.t, z.t), func(m map[string]uint64) uint64 {
			if x.f(m) < y.f(m) {
				return x.f(m)
			}
			return z.f(m)
		}}
	case 11:
		c := Eq(x.t, y.t)
		z := gen(r, w, depth-1)
		return pair{Ite(c, z.t, y.t), func(m map[string]uint64) uint64 {
			if x.f(m) == y.f(m) {
				return z.f(m)
			}
			return y.f(m)
		}}
	case 12:
		if w >= 2 {
			h := 1 + r.Intn(w-1)
			a := gen(r, h, depth-1)
			b := gen(r, w-h, depth-1)
			return pair{Concat(a.t, b.t), func(m map[string]uint64) uint64 { return a.f(m)<<uint(w-h) | b.f(m) }}
		}
		return x
	default:
		k := uint64(r.Intn(w + 2))
		return pair{AShr(x.t, Const(8, k)), func(m map[string]uint64) uint64 {
			s := k
			if s >= uint64(w) {
				s = uint64(w - 1)
			}
			return mk2(w, uint64(sx(x.f(m), w)>>s))
		}}
	}
}

func TestSimplifierAgainstReference(t *testing.T) {
	r := rand.New(rand.NewSource(1))
	for iter := 0; iter < 20000; iter++ {
		w := []int{1, 8, 16, 32, 64}[r.Intn(5)]
		p := gen(r, w, 4)
		for k := 0; k < 4; k++ {
			m := map[string]uint64{}
			for _, n := range []string{"a", "b", "c"} {
				for _, vw := range []int{8, 16, 32, 64} {
					v := r.Uint64()
					if r.Intn(3) == 0 {
						v = uint64(r.Intn(3))
					}
					m[n+string(rune('0'+vw/8))] = v & mask(vw)
				}
			}
			got, err := Eval(p.t, m, nil)
			if err != nil {
				t.Fatal(err)
			}
			want := p.f(m)
			if got != want {
				t.Fatalf("iter %d: term %s: got %x want %x (m=%v)", iter, p.t, got, want, m)
			}
		}
	}
}

func TestANF(t *testing.T) {
	x := Var("x", 16)
	y := Var("y", 16)
	z := Var("z", 16)
	// distributivity and commutation with 3
	l := GFMul(x, Xor(y, z))
	r := Xor(GFMul(x, y), GFMul(x, z))
	if eq, dec := ANFEqual(l, r); !eq || !dec {
		t.Fatalf("distributivity not proven: %v %v", eq, dec)
	}
	three := Const(16, 3)
	l = GFMul(three, GFMul(x, y))
	r = GFMul(x, GFMul(three, y))
	if eq, dec := ANFEqual(l, r); !eq || !dec {
		t.Fatalf("commutation not proven: %v %v", eq, dec)
	}
	if eq, _ := ANFEqual(GFMul(x, y), GFMul(x, z)); eq {
		t.Fatal("unsound")
	}
	// random evaluation of ANF-based gfmul vs concrete
	rr := rand.New(rand.NewSource(2))
	for i := 0; i < 1000; i++ {
		a, b := uint16(rr.Uint32()), uint16(rr.Uint32())
		v, _ := Eval(GFMul(x, y), map[string]uint64{"x": uint64(a), "y": uint64(b)}, nil)
		if uint16(v) != GFMulConcrete(a, b) {
			t.Fatal("gfmul eval")
		}
	}
}
