// Package term implements hash-consed bit-vector / boolean / integer terms with
// smart constructors (constant folding, concat/extract normalisation, XOR
// cancellation). It is the term layer of the gosym and asmsym symbolic
// executors.  W > 0: bit-vector of that width (<= 64); W == 0: Bool; W == -1:
// mathematical Int (constants limited to int64 range).
package term

import (
	"fmt"
	"sort"
	"strings"
)

type Op uint8

const (
	OpConst Op = iota
	OpVar
	OpAdd
	OpSub
	OpMul
	OpUDiv
	OpURem
	OpSDiv
	OpSRem
	OpAnd
	OpOr
	OpXor
	OpNot
	OpShl
	OpLShr
	OpAShr
	OpConcat // Args[0] is the high part
	OpExtract
	OpSExt
	OpIte
	OpGFMul   // 16-bit GF(2^16) product mod 0x1100B
	OpMD5Byte // Args = message bytes, Lo = byte index (0..15)
	OpSelect  // uninterpreted array Name, Args[0] index (any width); result width W
	// Bool-valued
	OpEq
	OpUlt
	OpUle
	OpSlt
	OpSle
	OpBAnd
	OpBOr
	OpBNot
	// Int-valued / Int predicates
	OpIAdd
	OpISub
	OpIMul
	OpIDiv // Go truncated division
	OpIMod // Go truncated remainder
	OpILt
	OpILe
	OpBV2Int // unsigned value of a bit-vector as Int (Lo==1: signed)
	OpInt2BV
)

var opNames = map[Op]string{OpAdd: "bvadd", OpSub: "bvsub", OpMul: "bvmul", OpUDiv: "bvudiv", OpURem: "bvurem",
	OpSDiv: "bvsdiv", OpSRem: "bvsrem", OpAnd: "bvand", OpOr: "bvor", OpXor: "bvxor", OpNot: "bvnot",
	OpShl: "bvshl", OpLShr: "bvlshr", OpAShr: "bvashr", OpConcat: "concat", OpIte: "ite", OpEq: "=",
	OpUlt: "bvult", OpUle: "bvule", OpSlt: "bvslt", OpSle: "bvsle", OpBAnd: "and", OpBOr: "or", OpBNot: "not",
	OpIAdd: "+", OpISub: "-", OpIMul: "*", OpILt: "<", OpILe: "<=", OpGFMul: "gfmul"}

// T is an immutable hash-consed term.
type T struct {
	Op   Op
	W    int
	Args []*T
	Val  uint64 // OpConst value (masked); Int constants: int64 bits
	Name string // OpVar, OpSelect
	Hi   int    // OpExtract
	Lo   int    // OpExtract, OpMD5Byte index, OpBV2Int signed flag
	ID   uint32
}

var (
	table  = map[tkey]*T{}
	nextID uint32
	// Vars lists every variable created, in creation order.
	Vars []*T
	varByName = map[string]*T{}
)

// Reset drops all terms (used between independent explorations to bound memory).
func Reset() {
	table = map[tkey]*T{}
	nextID = 0
	Vars = nil
	varByName = map[string]*T{}
	anfMemo = map[uint32]*anfRes{}
	atomBitIDs = map[uint64]uint32{}
	for _, f := range resetHooks {
		f()
	}
	initConsts()
}

func mask(w int) uint64 {
	if w >= 64 {
		return ^uint64(0)
	}
	return (uint64(1) << uint(w)) - 1
}

type tkey struct {
	op         Op
	w          int16
	hi, lo     int16
	n          int32
	val        uint64
	name       string
	a0, a1, a2 uint32
	rest       string
}

func mkKey(op Op, w int, val uint64, name string, hi, lo int, args []*T) tkey {
	k := tkey{op: op, w: int16(w), hi: int16(hi), lo: int16(lo), n: int32(len(args)), val: val, name: name}
	if len(args) > 0 {
		k.a0 = args[0].ID
	}
	if len(args) > 1 {
		k.a1 = args[1].ID
	}
	if len(args) > 2 {
		k.a2 = args[2].ID
	}
	if len(args) > 3 {
		b := make([]byte, 0, 4*(len(args)-3))
		for _, a := range args[3:] {
			b = append(b, byte(a.ID), byte(a.ID>>8), byte(a.ID>>16), byte(a.ID>>24))
		}
		k.rest = string(b)
	}
	return k
}

func mk(op Op, w int, val uint64, name string, hi, lo int, args ...*T) *T {
	k := mkKey(op, w, val, name, hi, lo, args)
	if t, ok := table[k]; ok {
		return t
	}
	nextID++
	t := &T{Op: op, W: w, Val: val, Name: name, Hi: hi, Lo: lo, ID: nextID}
	if len(args) > 0 {
		t.Args = append([]*T(nil), args...)
	}
	table[k] = t
	return t
}

// ---- leaves ----

func Const(w int, v uint64) *T {
	if w < 1 || w > 64 {
		panic(fmt.Sprintf("term: bad const width %d", w))
	}
	return mk(OpConst, w, v&mask(w), "", 0, 0)
}
func IntConst(v int64) *T { return mk(OpConst, -1, uint64(v), "", 0, 0) }
func Bool(b bool) *T {
	if b {
		return True
	}
	return False
}

var True, False *T

var resetHooks []func()

func init() { initConsts() }
func initConsts() {
	True = mk(OpConst, 0, 1, "", 0, 0)
	False = mk(OpConst, 0, 0, "", 0, 0)
}

// Var returns the variable with the given name (created on first use).
func Var(name string, w int) *T {
	if v, ok := varByName[name]; ok {
		if v.W != w {
			panic(fmt.Sprintf("term: variable %s redeclared with width %d (was %d)", name, w, v.W))
		}
		return v
	}
	v := mk(OpVar, w, 0, name, 0, 0)
	varByName[name] = v
	Vars = append(Vars, v)
	return v
}

func LookupVar(name string) *T { return varByName[name] }

func (t *T) IsConst() bool { return t.Op == OpConst }
func (t *T) IsTrue() bool  { return t == True }
func (t *T) IsFalse() bool { return t == False }
func (t *T) IsBool() bool  { return t.W == 0 }
func (t *T) IsInt() bool   { return t.W == -1 }

// SVal returns a constant's value sign-extended from its width.
func (t *T) SVal() int64 {
	if t.W == -1 || t.W >= 64 {
		return int64(t.Val)
	}
	sh := uint(64 - t.W)
	return int64(t.Val<<sh) >> sh
}

func sameW(a, b *T) {
	if a.W != b.W {
		panic(fmt.Sprintf("term: width mismatch %d vs %d (%s vs %s)", a.W, b.W, a, b))
	}
}

// ---- arithmetic ----

// KnownZero returns a mask of bits of t that are certainly zero.
func KnownZero(t *T) uint64 {
	switch t.Op {
	case OpConst:
		return ^t.Val & mask(t.W)
	case OpConcat:
		var m uint64
		for _, a := range t.Args {
			m = m<<uint(a.W) | KnownZero(a)
		}
		return m
	case OpAnd:
		var m uint64
		for _, a := range t.Args {
			m |= KnownZero(a)
		}
		return m
	case OpOr, OpXor:
		m := mask(t.W)
		for _, a := range t.Args {
			m &= KnownZero(a)
		}
		return m
	case OpIte:
		return KnownZero(t.Args[1]) & KnownZero(t.Args[2])
	}
	return 0
}

func Add(a, b *T) *T {
	sameW(a, b)
	if a.W == -1 {
		return IAdd(a, b)
	}
	if a.IsConst() && b.IsConst() {
		return Const(a.W, a.Val+b.Val)
	}
	if a.IsConst() {
		a, b = b, a
	}
	if b.IsConst() && b.Val == 0 {
		return a
	}
	// no carries possible: addition is a bitwise or (keeps concat structure)
	if a.Op == OpConcat && (b.IsConst() || b.Op == OpConcat) {
		if ^KnownZero(a)&^KnownZero(b)&mask(a.W) == 0 {
			return Or(a, b)
		}
	}
	// (x + c1) + c2
	if b.IsConst() && a.Op == OpAdd && a.Args[1].IsConst() {
		return Add(a.Args[0], Const(a.W, a.Args[1].Val+b.Val))
	}
	if !b.IsConst() && a.ID > b.ID {
		a, b = b, a
	}
	return mk(OpAdd, a.W, 0, "", 0, 0, a, b)
}

func Sub(a, b *T) *T {
	sameW(a, b)
	if a.W == -1 {
		return ISub(a, b)
	}
	if a.IsConst() && b.IsConst() {
		return Const(a.W, a.Val-b.Val)
	}
	if b.IsConst() {
		return Add(a, Const(a.W, -b.Val))
	}
	if a == b {
		return Const(a.W, 0)
	}
	return mk(OpSub, a.W, 0, "", 0, 0, a, b)
}

func Neg(a *T) *T {
	if a.W == -1 {
		return ISub(IntConst(0), a)
	}
	return Sub(Const(a.W, 0), a)
}

func Mul(a, b *T) *T {
	sameW(a, b)
	if a.W == -1 {
		return IMul(a, b)
	}
	if a.IsConst() && b.IsConst() {
		return Const(a.W, a.Val*b.Val)
	}
	if a.IsConst() {
		a, b = b, a
	}
	if b.IsConst() {
		if b.Val == 0 {
			return b
		}
		if b.Val == 1 {
			return a
		}
		if b.Val&(b.Val-1) == 0 {
			k := 0
			for (b.Val>>uint(k))&1 == 0 {
				k++
			}
			return Shl(a, Const(a.W, uint64(k)))
		}
	} else if a.ID > b.ID {
		a, b = b, a
	}
	return mk(OpMul, a.W, 0, "", 0, 0, a, b)
}

// UDiv: caller guarantees b != 0 on this path (Go panics otherwise).
func UDiv(a, b *T) *T {
	sameW(a, b)
	if a.IsConst() && b.IsConst() && b.Val != 0 {
		return Const(a.W, a.Val/b.Val)
	}
	if b.IsConst() && b.Val != 0 && b.Val&(b.Val-1) == 0 {
		k := 0
		for (b.Val>>uint(k))&1 == 0 {
			k++
		}
		return LShr(a, Const(a.W, uint64(k)))
	}
	return mk(OpUDiv, a.W, 0, "", 0, 0, a, b)
}
func URem(a, b *T) *T {
	sameW(a, b)
	if a.IsConst() && b.IsConst() && b.Val != 0 {
		return Const(a.W, a.Val%b.Val)
	}
	if b.IsConst() && b.Val != 0 && b.Val&(b.Val-1) == 0 {
		return And(a, Const(a.W, b.Val-1))
	}
	return mk(OpURem, a.W, 0, "", 0, 0, a, b)
}
func SDiv(a, b *T) *T {
	sameW(a, b)
	if a.IsConst() && b.IsConst() && b.Val != 0 {
		x, y := a.SVal(), b.SVal()
		if y == -1 {
			return Const(a.W, uint64(-x))
		}
		return Const(a.W, uint64(x/y))
	}
	return mk(OpSDiv, a.W, 0, "", 0, 0, a, b)
}
func SRem(a, b *T) *T {
	sameW(a, b)
	if a.IsConst() && b.IsConst() && b.Val != 0 {
		x, y := a.SVal(), b.SVal()
		if y == -1 {
			return Const(a.W, 0)
		}
		return Const(a.W, uint64(x%y))
	}
	return mk(OpSRem, a.W, 0, "", 0, 0, a, b)
}

// ---- bitwise ----

// segments splits a term into (term, width) pieces from high to low following
// Concat structure; constants are returned whole.
func segs(t *T) []*T {
	if t.Op == OpConcat {
		var out []*T
		for _, a := range t.Args {
			out = append(out, segs(a)...)
		}
		return out
	}
	return []*T{t}
}

// boundaries returns the set of bit positions (from low, exclusive upper
// bounds) at which t's concat structure splits.
func boundaries(t *T, set map[int]bool) {
	if t.Op != OpConcat {
		return
	}
	pos := t.W
	for _, a := range segs(t) {
		pos -= a.W
		if pos > 0 {
			set[pos] = true
		}
	}
}

func isSegmented(t *T) bool { return t.Op == OpConcat }

// bitwiseSeg applies op segment-wise when at least one side is a Concat and
// the other is a Concat or constant; returns nil when not applicable.
func bitwiseSeg(op Op, a, b *T) *T {
	if !(isSegmented(a) && (isSegmented(b) || b.IsConst())) && !(isSegmented(b) && a.IsConst()) {
		return nil
	}
	set := map[int]bool{}
	boundaries(a, set)
	boundaries(b, set)
	var cuts []int
	for p := range set {
		cuts = append(cuts, p)
	}
	sort.Ints(cuts)
	cuts = append(cuts, a.W)
	var parts []*T // low to high
	lo := 0
	for _, hi := range cuts {
		x := Extract(a, hi-1, lo)
		y := Extract(b, hi-1, lo)
		var r *T
		switch op {
		case OpAnd:
			r = And(x, y)
		case OpOr:
			r = Or(x, y)
		default:
			r = Xor(x, y)
		}
		parts = append(parts, r)
		lo = hi
	}
	res := parts[0]
	for _, p := range parts[1:] {
		res = Concat(p, res)
	}
	return res
}

func And(a, b *T) *T {
	sameW(a, b)
	if a.W == 0 {
		return BAnd(a, b)
	}
	if a.IsConst() && b.IsConst() {
		return Const(a.W, a.Val&b.Val)
	}
	if a.IsConst() {
		a, b = b, a
	}
	if a == b {
		return a
	}
	if b.IsConst() {
		if b.Val == 0 {
			return b
		}
		if b.Val == mask(a.W) {
			return a
		}
		// and with a mask that is a contiguous low run: zero-extend of extract
		if b.Val&(b.Val+1) == 0 {
			k := 0
			for (b.Val>>uint(k))&1 == 1 {
				k++
			}
			return Concat(Const(a.W-k, 0), Extract(a, k-1, 0))
		}
		if a.Op == OpAnd && a.Args[1].IsConst() {
			return And(a.Args[0], Const(a.W, a.Args[1].Val&b.Val))
		}
	}
	if r := bitwiseSeg(OpAnd, a, b); r != nil {
		return r
	}
	if !b.IsConst() && a.ID > b.ID {
		a, b = b, a
	}
	return mk(OpAnd, a.W, 0, "", 0, 0, a, b)
}

func Or(a, b *T) *T {
	sameW(a, b)
	if a.W == 0 {
		return BOr(a, b)
	}
	if a.IsConst() && b.IsConst() {
		return Const(a.W, a.Val|b.Val)
	}
	if a.IsConst() {
		a, b = b, a
	}
	if a == b {
		return a
	}
	if b.IsConst() {
		if b.Val == 0 {
			return a
		}
		if b.Val == mask(a.W) {
			return b
		}
	}
	if r := bitwiseSeg(OpOr, a, b); r != nil {
		return r
	}
	if !b.IsConst() && a.ID > b.ID {
		a, b = b, a
	}
	return mk(OpOr, a.W, 0, "", 0, 0, a, b)
}

// Xor keeps an n-ary, sorted, cancelled argument list with at most one
// constant (last).
func Xor(a, b *T) *T {
	sameW(a, b)
	if a.W == 0 {
		return BNot(Eq(a, b))
	}
	if a.IsConst() && b.IsConst() {
		return Const(a.W, a.Val^b.Val)
	}
	if a == b {
		return Const(a.W, 0)
	}
	if (a.IsConst() && a.Val == 0) {
		return b
	}
	if (b.IsConst() && b.Val == 0) {
		return a
	}
	if r := bitwiseSeg(OpXor, a, b); r != nil {
		return r
	}
	var c uint64
	cnt := map[*T]int{}
	var add func(t *T)
	add = func(t *T) {
		switch {
		case t.IsConst():
			c ^= t.Val
		case t.Op == OpXor:
			for _, x := range t.Args {
				add(x)
			}
		case t.Op == OpNot:
			c ^= mask(t.W)
			add(t.Args[0])
		default:
			cnt[t]++
		}
	}
	add(a)
	add(b)
	var args []*T
	for t, n := range cnt {
		if n%2 == 1 {
			args = append(args, t)
		}
	}
	sort.Slice(args, func(i, j int) bool { return args[i].ID < args[j].ID })
	if len(args) == 0 {
		return Const(a.W, c)
	}
	if c != 0 {
		if len(args) == 1 && c == mask(a.W) {
			return mk(OpNot, a.W, 0, "", 0, 0, args[0])
		}
		args = append(args, Const(a.W, c))
	}
	if len(args) == 1 {
		return args[0]
	}
	return mk(OpXor, a.W, 0, "", 0, 0, args...)
}

func Not(a *T) *T {
	if a.W == 0 {
		return BNot(a)
	}
	return Xor(a, Const(a.W, mask(a.W)))
}

func Shl(a, k *T) *T {
	if k.IsConst() {
		s := k.Val
		if k.W < 64 {
			s = k.Val & mask(k.W)
		}
		if s == 0 {
			return a
		}
		if s >= uint64(a.W) {
			return Const(a.W, 0)
		}
		if a.IsConst() {
			return Const(a.W, a.Val<<s)
		}
		return Concat(Extract(a, a.W-1-int(s), 0), Const(int(s), 0))
	}
	k = Resize(k, a.W)
	if a.IsConst() && a.Val == 0 {
		return a
	}
	return mk(OpShl, a.W, 0, "", 0, 0, a, k)
}

func LShr(a, k *T) *T {
	if k.IsConst() {
		s := k.Val
		if s == 0 {
			return a
		}
		if s >= uint64(a.W) {
			return Const(a.W, 0)
		}
		if a.IsConst() {
			return Const(a.W, a.Val>>s)
		}
		return Concat(Const(int(s), 0), Extract(a, a.W-1, int(s)))
	}
	k = Resize(k, a.W)
	if a.IsConst() && a.Val == 0 {
		return a
	}
	return mk(OpLShr, a.W, 0, "", 0, 0, a, k)
}

func AShr(a, k *T) *T {
	if k.IsConst() {
		s := k.Val
		if s == 0 {
			return a
		}
		if s >= uint64(a.W) {
			s = uint64(a.W - 1)
		}
		if a.IsConst() {
			return Const(a.W, uint64(a.SVal()>>s))
		}
		return SExt(Extract(a, a.W-1, int(s)), a.W)
	}
	k = Resize(k, a.W)
	return mk(OpAShr, a.W, 0, "", 0, 0, a, k)
}

// Resize zero-extends or truncates (unsigned shift counts: values >= 2^W of a
// wider count must saturate, so when truncating we saturate explicitly).
func Resize(k *T, w int) *T {
	if k.W == w {
		return k
	}
	if k.W < w {
		return ZExt(k, w)
	}
	// truncating a shift count: if any high bit is set the shift is >= w anyway
	hi := Extract(k, k.W-1, w)
	lo := Extract(k, w-1, 0)
	return Ite(Eq(hi, Const(hi.W, 0)), lo, Const(w, mask(w)))
}

func Concat(hi, lo *T) *T {
	if hi.W <= 0 || lo.W <= 0 {
		panic("term: concat of non-bv")
	}
	w := hi.W + lo.W
	if w > 64 {
		panic(fmt.Sprintf("term: concat width %d > 64", w))
	}
	if hi.IsConst() && lo.IsConst() {
		return Const(w, hi.Val<<uint(lo.W)|lo.Val)
	}
	parts := append(segs(hi), segs(lo)...)
	// merge adjacent constants and adjacent extracts of the same term
	var out []*T
	for _, p := range parts {
		if n := len(out); n > 0 {
			q := out[n-1]
			if q.IsConst() && p.IsConst() {
				out[n-1] = Const(q.W+p.W, q.Val<<uint(p.W)|p.Val)
				continue
			}
			if q.Op == OpExtract && p.Op == OpExtract && q.Args[0] == p.Args[0] && q.Lo == p.Hi+1 {
				out[n-1] = Extract(q.Args[0], q.Hi, p.Lo)
				continue
			}
			// extract(x, hi, k) ++ x[k-1:0] where p is whole low part handled by Extract identity
		}
		out = append(out, p)
	}
	if len(out) == 1 {
		return out[0]
	}
	return mk(OpConcat, w, 0, "", 0, 0, out...)
}

func Extract(a *T, hi, lo int) *T {
	if hi < lo || lo < 0 || hi >= a.W {
		panic(fmt.Sprintf("term: bad extract [%d:%d] of width %d", hi, lo, a.W))
	}
	w := hi - lo + 1
	if w == a.W {
		return a
	}
	switch a.Op {
	case OpConst:
		return Const(w, a.Val>>uint(lo))
	case OpExtract:
		return Extract(a.Args[0], a.Lo+hi, a.Lo+lo)
	case OpConcat:
		pos := a.W
		var parts []*T
		for _, p := range a.Args {
			phi, plo := pos-1, pos-p.W
			pos -= p.W
			if plo > hi || phi < lo {
				continue
			}
			h, l := hi, lo
			if h > phi {
				h = phi
			}
			if l < plo {
				l = plo
			}
			parts = append(parts, Extract(p, h-plo, l-plo))
		}
		r := parts[0]
		for _, p := range parts[1:] {
			r = Concat(r, p)
		}
		return r
	case OpXor, OpAnd, OpOr:
		args := make([]*T, len(a.Args))
		for i, x := range a.Args {
			args[i] = Extract(x, hi, lo)
		}
		r := args[0]
		for _, x := range args[1:] {
			switch a.Op {
			case OpXor:
				r = Xor(r, x)
			case OpAnd:
				r = And(r, x)
			default:
				r = Or(r, x)
			}
		}
		return r
	case OpNot:
		return Not(Extract(a.Args[0], hi, lo))
	case OpIte:
		if a.Args[1].IsConst() || a.Args[2].IsConst() {
			return Ite(a.Args[0], Extract(a.Args[1], hi, lo), Extract(a.Args[2], hi, lo))
		}
	case OpSExt:
		x := a.Args[0]
		if hi < x.W {
			return Extract(x, hi, lo)
		}
	case OpAdd, OpSub, OpMul:
		if lo == 0 { // low bits of modular arithmetic depend only on low bits
			args := make([]*T, len(a.Args))
			for i, x := range a.Args {
				args[i] = Extract(x, hi, 0)
			}
			switch a.Op {
			case OpAdd:
				return Add(args[0], args[1])
			case OpSub:
				return Sub(args[0], args[1])
			default:
				return Mul(args[0], args[1])
			}
		}
	}
	return mk(OpExtract, w, 0, "", hi, lo, a)
}

func ZExt(a *T, w int) *T {
	if a.W == w {
		return a
	}
	if a.W > w {
		panic("term: zext narrows")
	}
	return Concat(Const(w-a.W, 0), a)
}

func SExt(a *T, w int) *T {
	if a.W == w {
		return a
	}
	if a.W > w {
		panic("term: sext narrows")
	}
	if a.IsConst() {
		return Const(w, uint64(a.SVal()))
	}
	// sign bit known zero?
	if a.Op == OpConcat && a.Args[0].IsConst() && a.Args[0].Val>>(uint(a.Args[0].W)-1) == 0 {
		return ZExt(a, w)
	}
	if a.Op == OpSExt {
		return SExt(a.Args[0], w)
	}
	return mk(OpSExt, w, 0, "", 0, 0, a)
}

func Ite(c, a, b *T) *T {
	sameW(a, b)
	if c.W != 0 {
		panic("term: ite condition not bool")
	}
	if c.IsTrue() {
		return a
	}
	if c.IsFalse() {
		return b
	}
	if a == b {
		return a
	}
	if a.W == 0 {
		if a.IsTrue() && b.IsFalse() {
			return c
		}
		if a.IsFalse() && b.IsTrue() {
			return BNot(c)
		}
		return BOr(BAnd(c, a), BAnd(BNot(c), b))
	}
	if c.Op == OpBNot {
		return Ite(c.Args[0], b, a)
	}
	// ite(c, ite(c, x, y), z) = ite(c, x, z)
	if a.Op == OpIte && a.Args[0] == c {
		a = a.Args[1]
	}
	if b.Op == OpIte && b.Args[0] == c {
		b = b.Args[2]
	}
	// ite(c, r^s, r) = r ^ ite(c, s, 0): keeps conditional-xor chains linear
	if a.Op == OpXor && xorHas(a, b) {
		return Xor(b, Ite(c, Xor(a, b), Const(a.W, 0)))
	}
	if b.Op == OpXor && xorHas(b, a) {
		return Xor(a, Ite(c, Const(a.W, 0), Xor(a, b)))
	}
	return mk(OpIte, a.W, 0, "", 0, 0, c, a, b)
}

// GFMul is multiplication in GF(2^16) mod 0x1100B.
func xorHas(x, t *T) bool {
	if t.Op == OpXor {
		// every argument of t must be an argument of x
		for _, u := range t.Args {
			if !xorHas(x, u) {
				return false
			}
		}
		return true
	}
	for _, u := range x.Args {
		if u == t {
			return true
		}
	}
	return false
}

func GFMul(a, b *T) *T {
	if a.W != 16 || b.W != 16 {
		panic("term: gfmul needs 16-bit operands")
	}
	if a.IsConst() && b.IsConst() {
		return Const(16, uint64(GFMulConcrete(uint16(a.Val), uint16(b.Val))))
	}
	if a.IsConst() {
		a, b = b, a
	}
	if b.IsConst() {
		if b.Val == 0 {
			return b
		}
		if b.Val == 1 {
			return a
		}
	} else if a.ID > b.ID {
		a, b = b, a
	}
	return mk(OpGFMul, 16, 0, "", 0, 0, a, b)
}

func GFMulConcrete(a, b uint16) uint16 {
	var p uint32
	for i := uint(0); i < 16; i++ {
		if b>>i&1 != 0 {
			p ^= uint32(a) << i
		}
	}
	for i := 30; i >= 16; i-- {
		if p>>uint(i)&1 != 0 {
			p ^= 0x1100B << uint(i-16)
		}
	}
	return uint16(p)
}

func MD5Byte(msg []*T, idx int) *T {
	return mk(OpMD5Byte, 8, 0, "", 0, idx, msg...)
}

// Select is an application of the uninterpreted array `name` (result width w).
func Select(name string, idx *T, w int) *T {
	return mk(OpSelect, w, 0, name, 0, 0, idx)
}

// ---- predicates ----

func Eq(a, b *T) *T {
	sameW(a, b)
	if a == b {
		return True
	}
	if a.IsConst() && b.IsConst() {
		return Bool(a.Val == b.Val)
	}
	if a.W == 0 {
		if a.IsConst() {
			a, b = b, a
		}
		if b.IsTrue() {
			return a
		}
		if b.IsFalse() {
			return BNot(a)
		}
	}
	if a.IsConst() {
		a, b = b, a
	}
	if a.W > 0 {
		// segment-wise equality
		if a.Op == OpConcat && (b.Op == OpConcat || b.IsConst()) {
			set := map[int]bool{}
			boundaries(a, set)
			boundaries(b, set)
			var cuts []int
			for p := range set {
				cuts = append(cuts, p)
			}
			sort.Ints(cuts)
			cuts = append(cuts, a.W)
			r := True
			lo := 0
			for _, hi := range cuts {
				r = BAnd(r, Eq(Extract(a, hi-1, lo), Extract(b, hi-1, lo)))
				lo = hi
			}
			return r
		}
		if b.IsConst() {
			// xor(x, c1) == c2  ->  x == c1^c2 ; not(x)==c
			if a.Op == OpNot {
				return Eq(a.Args[0], Const(a.W, ^b.Val))
			}
			if a.Op == OpXor && a.Args[len(a.Args)-1].IsConst() && len(a.Args) == 2 {
				return Eq(a.Args[0], Const(a.W, a.Args[1].Val^b.Val))
			}
			if a.Op == OpAdd && a.Args[1].IsConst() {
				return Eq(a.Args[0], Const(a.W, b.Val-a.Args[1].Val))
			}
			if a.Op == OpIte && a.Args[1].IsConst() && a.Args[2].IsConst() {
				t1 := a.Args[1].Val == b.Val
				t2 := a.Args[2].Val == b.Val
				switch {
				case t1 && t2:
					return True
				case t1:
					return a.Args[0]
				case t2:
					return BNot(a.Args[0])
				default:
					return False
				}
			}
		}
	}
	if a.W > 0 && (a.Op == OpXor || b.Op == OpXor) {
		if v, rest := isolateVar(a, b); v != nil {
			return mk(OpEq, 0, 0, "", 0, 0, v, rest)
		}
	}
	if !b.IsConst() && a.ID > b.ID {
		a, b = b, a
	}
	return mk(OpEq, 0, 0, "", 0, 0, a, b)
}

// isolateVar rewrites a == b, where a^b has a top-level variable that occurs
// nowhere else, into (v, xor of the rest) so that solvers can eliminate v.
func isolateVar(a, b *T) (*T, *T) {
	x := Xor(a, b)
	if x.Op != OpXor {
		return nil, nil
	}
	var best *T
	for _, t := range x.Args {
		if t.Op == OpVar && (best == nil || t.ID > best.ID) {
			best = t
		}
	}
	if best == nil {
		return nil, nil
	}
	rest := Const(x.W, 0)
	for _, t := range x.Args {
		if t != best {
			rest = Xor(rest, t)
		}
	}
	if occurs(best, rest) {
		return nil, nil
	}
	return best, rest
}

func occurs(v, t *T) bool {
	seen := map[uint32]bool{}
	stack := []*T{t}
	for len(stack) > 0 {
		x := stack[len(stack)-1]
		stack = stack[:len(stack)-1]
		if x == v {
			return true
		}
		if seen[x.ID] {
			continue
		}
		seen[x.ID] = true
		stack = append(stack, x.Args...)
	}
	return false
}

func Ne(a, b *T) *T { return BNot(Eq(a, b)) }

func Ult(a, b *T) *T {
	sameW(a, b)
	if a.W == -1 {
		return ILt(a, b)
	}
	if a.IsConst() && b.IsConst() {
		return Bool(a.Val < b.Val)
	}
	if a == b {
		return False
	}
	if b.IsConst() && b.Val == 0 {
		return False
	}
	if a.IsConst() && a.Val == mask(a.W) {
		return False
	}
	if b.IsConst() && b.Val == 1 {
		return Eq(a, Const(a.W, 0))
	}
	// known-zero high bits: concat(0_k, x) < c
	if a.Op == OpConcat && a.Args[0].IsConst() && a.Args[0].Val == 0 && b.IsConst() {
		lw := a.W - a.Args[0].W
		if b.Val > mask(lw) {
			return True
		}
		return Ult(Extract(a, lw-1, 0), Const(lw, b.Val))
	}
	return mk(OpUlt, 0, 0, "", 0, 0, a, b)
}
func Ule(a, b *T) *T { return BNot(Ult(b, a)) }
func Slt(a, b *T) *T {
	sameW(a, b)
	if a.W == -1 {
		return ILt(a, b)
	}
	if a.IsConst() && b.IsConst() {
		return Bool(a.SVal() < b.SVal())
	}
	if a == b {
		return False
	}
	return mk(OpSlt, 0, 0, "", 0, 0, a, b)
}
func Sle(a, b *T) *T { return BNot(Slt(b, a)) }

func BNot(a *T) *T {
	if a.W != 0 {
		panic("term: BNot of non-bool")
	}
	if a.IsConst() {
		return Bool(a.Val == 0)
	}
	if a.Op == OpBNot {
		return a.Args[0]
	}
	return mk(OpBNot, 0, 0, "", 0, 0, a)
}

func flattenB(op Op, a *T, out *[]*T) {
	if a.Op == op {
		for _, x := range a.Args {
			flattenB(op, x, out)
		}
		return
	}
	*out = append(*out, a)
}

func nary(op Op, unit, zero *T, a, b *T) *T {
	var xs []*T
	flattenB(op, a, &xs)
	flattenB(op, b, &xs)
	seen := map[*T]bool{}
	var out []*T
	for _, x := range xs {
		if x == zero {
			return zero
		}
		if x == unit || seen[x] {
			continue
		}
		if x.Op == OpBNot && seen[x.Args[0]] {
			return zero
		}
		seen[x] = true
		out = append(out, x)
	}
	for _, x := range out {
		if x.Op != OpBNot && seen[BNotNoCreate(x)] {
			return zero
		}
	}
	if len(out) == 0 {
		return unit
	}
	if len(out) == 1 {
		return out[0]
	}
	sort.Slice(out, func(i, j int) bool { return out[i].ID < out[j].ID })
	return mk(op, 0, 0, "", 0, 0, out...)
}

// BNotNoCreate returns the existing negation of x or nil.
func BNotNoCreate(x *T) *T {
	return table[mkKey(OpBNot, 0, 0, "", 0, 0, []*T{x})]
}

func BAnd(a, b *T) *T {
	if a.W != 0 || b.W != 0 {
		panic("term: BAnd of non-bool")
	}
	return nary(OpBAnd, True, False, a, b)
}
func BOr(a, b *T) *T {
	if a.W != 0 || b.W != 0 {
		panic("term: BOr of non-bool")
	}
	return nary(OpBOr, False, True, a, b)
}
func Implies(a, b *T) *T { return BOr(BNot(a), b) }

func AndAll(xs ...*T) *T {
	r := True
	for _, x := range xs {
		r = BAnd(r, x)
	}
	return r
}

// ---- Int ----

func IAdd(a, b *T) *T {
	if a.IsConst() && b.IsConst() {
		return IntConst(int64(a.Val) + int64(b.Val))
	}
	if a.IsConst() {
		a, b = b, a
	}
	if b.IsConst() && b.Val == 0 {
		return a
	}
	return mk(OpIAdd, -1, 0, "", 0, 0, a, b)
}
func ISub(a, b *T) *T {
	if a.IsConst() && b.IsConst() {
		return IntConst(int64(a.Val) - int64(b.Val))
	}
	if b.IsConst() && b.Val == 0 {
		return a
	}
	if a == b {
		return IntConst(0)
	}
	return mk(OpISub, -1, 0, "", 0, 0, a, b)
}
func IMul(a, b *T) *T {
	if a.IsConst() && b.IsConst() {
		return IntConst(int64(a.Val) * int64(b.Val))
	}
	if a.IsConst() {
		a, b = b, a
	}
	if b.IsConst() && b.Val == 1 {
		return a
	}
	if b.IsConst() && b.Val == 0 {
		return b
	}
	return mk(OpIMul, -1, 0, "", 0, 0, a, b)
}
func IDiv(a, b *T) *T {
	if a.IsConst() && b.IsConst() && b.Val != 0 {
		return IntConst(int64(a.Val) / int64(b.Val))
	}
	if b.IsConst() && b.Val == 1 {
		return a
	}
	return mk(OpIDiv, -1, 0, "", 0, 0, a, b)
}
func IMod(a, b *T) *T {
	if a.IsConst() && b.IsConst() && b.Val != 0 {
		return IntConst(int64(a.Val) % int64(b.Val))
	}
	if b.IsConst() && b.Val == 1 {
		return IntConst(0)
	}
	return mk(OpIMod, -1, 0, "", 0, 0, a, b)
}
func ILt(a, b *T) *T {
	if a.IsConst() && b.IsConst() {
		return Bool(int64(a.Val) < int64(b.Val))
	}
	if a == b {
		return False
	}
	return mk(OpILt, 0, 0, "", 0, 0, a, b)
}
func ILe(a, b *T) *T { return BNot(ILt(b, a)) }

// BV2Int converts a bit-vector to its (un)signed integer value.
func BV2Int(a *T, signed bool) *T {
	if a.IsConst() {
		if signed {
			return IntConst(a.SVal())
		}
		return IntConst(int64(a.Val))
	}
	s := 0
	if signed {
		s = 1
	}
	return mk(OpBV2Int, -1, 0, "", 0, s, a)
}

// Int2BV converts an Int to a bit-vector of width w (mod 2^w).
func Int2BV(a *T, w int) *T {
	if a.IsConst() {
		return Const(w, a.Val)
	}
	if a.Op == OpBV2Int && a.Lo == 0 && a.Args[0].W == w {
		return a.Args[0]
	}
	return mk(OpInt2BV, w, 0, "", 0, 0, a)
}

// ---- printing for debugging ----

func (t *T) String() string {
	var sb strings.Builder
	t.str(&sb, 0)
	return sb.String()
}

func (t *T) str(sb *strings.Builder, depth int) {
	if depth > 6 {
		sb.WriteString("…")
		return
	}
	switch t.Op {
	case OpConst:
		switch t.W {
		case 0:
			if t.Val != 0 {
				sb.WriteString("true")
			} else {
				sb.WriteString("false")
			}
		case -1:
			fmt.Fprintf(sb, "%d", int64(t.Val))
		default:
			fmt.Fprintf(sb, "0x%x:%d", t.Val, t.W)
		}
	case OpVar:
		sb.WriteString(t.Name)
	case OpExtract:
		t.Args[0].str(sb, depth+1)
		fmt.Fprintf(sb, "[%d:%d]", t.Hi, t.Lo)
	case OpSelect:
		fmt.Fprintf(sb, "%s[", t.Name)
		t.Args[0].str(sb, depth+1)
		sb.WriteString("]")
	case OpMD5Byte:
		fmt.Fprintf(sb, "md5#%d(%d bytes)", t.Lo, len(t.Args))
	default:
		n := opNames[t.Op]
		if n == "" {
			n = fmt.Sprintf("op%d", t.Op)
		}
		sb.WriteString("(" + n)
		for _, a := range t.Args {
			sb.WriteString(" ")
			a.str(sb, depth+1)
		}
		sb.WriteString(")")
	}
}
