package term

import (
	"hash/crc32"
	"testing"
)

func crcTerm(bs []*T) *T {
	crc := Const(32, 0xffffffff)
	for _, b := range bs {
		idx := Xor(Extract(crc, 7, 0), b)
		// affine table form
		t0 := uint64(crc32.IEEETable[0])
		r := Const(32, t0)
		for j := 0; j < 8; j++ {
			k := uint64(crc32.IEEETable[1<<uint(j)]) ^ t0
			bit := Eq(Extract(idx, j, j), Const(1, 1))
			r = Xor(r, Ite(bit, Const(32, k), Const(32, 0)))
		}
		crc = Xor(r, LShr(crc, Const(8, 8)))
	}
	return Not(crc)
}

func TestSolveAffineCRC(t *testing.T) {
	x := Var("xb", 8)
	bs := []*T{x, Const(8, 0xEE), Const(8, 0xEE), Const(8, 0xEE)}
	c := crcTerm(bs)
	want := crc32.ChecksumIEEE([]byte{0x11, 0xEE, 0xEE, 0xEE})
	r, ok := SolveAffineEq(c, Const(32, uint64(want)))
	if !ok {
		d, m, aok := ANFStats(c)
		t.Fatalf("not solved: anf ok=%v deg=%d monos=%d", aok, d, m)
	}
	t.Logf("solved: %s", r)
	// the only solution is xb = 0x11
	v, _ := Eval(r, map[string]uint64{"xb": 0x11}, nil)
	if v != 1 {
		t.Fatal("solution lost")
	}
	v, _ = Eval(r, map[string]uint64{"xb": 0x12}, nil)
	if v != 0 {
		t.Fatal("non-solution admitted")
	}
}
