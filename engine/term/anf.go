package term

import "sort"

// Bit-level algebraic normal form over GF(2).  Every bit of a term is a set of
// monomials; a monomial is a sorted set of atom-bit ids encoded 3 bytes each.
// Unsupported operators become opaque atoms, so equal ANF always implies equal
// value (sound); unequal ANF decides nothing.

type poly map[string]struct{}

type anfRes struct {
	bits []poly // index 0 = lsb; for Bool: 1 entry
	ok   bool
}

var (
	anfMemo    = map[uint32]*anfRes{}
	atomBitIDs = map[uint64]uint32{} // (termID<<8 | bit) -> id
	// ANFCap bounds the number of monomials per bit.
	ANFCap = 1 << 15
)

func atomBit(id uint32, bit int) string {
	k := uint64(id)<<8 | uint64(bit)
	v, ok := atomBitIDs[k]
	if !ok {
		v = uint32(len(atomBitIDs) + 1)
		atomBitIDs[k] = v
	}
	return string([]byte{byte(v >> 16), byte(v >> 8), byte(v)})
}

func pconst(b bool) poly {
	if b {
		return poly{"": {}}
	}
	return poly{}
}

func pxor(a, b poly) poly {
	if len(a) < len(b) {
		a, b = b, a
	}
	r := make(poly, len(a)+len(b))
	for m := range a {
		r[m] = struct{}{}
	}
	for m := range b {
		if _, ok := r[m]; ok {
			delete(r, m)
		} else {
			r[m] = struct{}{}
		}
	}
	return r
}

func mmul(a, b string) string {
	if a == "" {
		return b
	}
	if b == "" {
		return a
	}
	// merge two sorted 3-byte sequences, dropping duplicates
	out := make([]byte, 0, len(a)+len(b))
	i, j := 0, 0
	for i < len(a) && j < len(b) {
		x, y := a[i:i+3], b[j:j+3]
		switch {
		case x == y:
			out = append(out, x...)
			i += 3
			j += 3
		case x < y:
			out = append(out, x...)
			i += 3
		default:
			out = append(out, y...)
			j += 3
		}
	}
	out = append(out, a[i:]...)
	out = append(out, b[j:]...)
	return string(out)
}

func pand(a, b poly) (poly, bool) {
	if len(a)*len(b) > 4*ANFCap {
		return nil, false
	}
	r := poly{}
	for x := range a {
		for y := range b {
			m := mmul(x, y)
			if _, ok := r[m]; ok {
				delete(r, m)
			} else {
				r[m] = struct{}{}
			}
		}
	}
	return r, len(r) <= ANFCap
}

func pnot(a poly) poly { return pxor(a, pconst(true)) }

func peq(a, b poly) bool {
	if len(a) != len(b) {
		return false
	}
	for m := range a {
		if _, ok := b[m]; !ok {
			return false
		}
	}
	return true
}

func atom(t *T) *anfRes {
	n := t.W
	if n == 0 {
		n = 1
	}
	r := &anfRes{ok: true, bits: make([]poly, n)}
	for i := 0; i < n; i++ {
		r.bits[i] = poly{atomBit(t.ID, i): {}}
	}
	return r
}

var gfBasis [16][16]uint16 // not used; gfmul by const computed on the fly

func anf(t *T) *anfRes {
	if r, ok := anfMemo[t.ID]; ok {
		return r
	}
	r := anf1(t)
	anfMemo[t.ID] = r
	return r
}

func anf1(t *T) *anfRes {
	if t.W == -1 {
		return &anfRes{ok: false}
	}
	n := t.W
	if n == 0 {
		n = 1
	}
	fail := &anfRes{ok: false}
	args := func() []*anfRes {
		out := make([]*anfRes, len(t.Args))
		for i, a := range t.Args {
			out[i] = anf(a)
			if !out[i].ok {
				return nil
			}
		}
		return out
	}
	res := &anfRes{ok: true, bits: make([]poly, n)}
	switch t.Op {
	case OpConst:
		for i := 0; i < n; i++ {
			res.bits[i] = pconst(t.Val>>uint(i)&1 == 1)
		}
	case OpVar:
		return atom(t)
	case OpXor:
		a := args()
		if a == nil {
			return fail
		}
		for i := 0; i < n; i++ {
			p := poly{}
			for _, x := range a {
				p = pxor(p, x.bits[i])
			}
			res.bits[i] = p
		}
	case OpNot, OpBNot:
		a := args()
		if a == nil {
			return fail
		}
		for i := 0; i < n; i++ {
			res.bits[i] = pnot(a[0].bits[i])
		}
	case OpAnd, OpBAnd, OpOr, OpBOr:
		a := args()
		if a == nil {
			return fail
		}
		isOr := t.Op == OpOr || t.Op == OpBOr
		for i := 0; i < n; i++ {
			p := a[0].bits[i]
			if isOr {
				p = pnot(p)
			}
			for _, x := range a[1:] {
				q := x.bits[i]
				if isOr {
					q = pnot(q)
				}
				var ok bool
				p, ok = pand(p, q)
				if !ok {
					return fail
				}
			}
			if isOr {
				p = pnot(p)
			}
			res.bits[i] = p
		}
	case OpConcat:
		a := args()
		if a == nil {
			return fail
		}
		pos := n
		for _, x := range a {
			pos -= len(x.bits)
			copy(res.bits[pos:], x.bits)
		}
	case OpExtract:
		a := args()
		if a == nil {
			return fail
		}
		copy(res.bits, a[0].bits[t.Lo:t.Hi+1])
	case OpSExt:
		a := args()
		if a == nil {
			return fail
		}
		k := len(a[0].bits)
		for i := 0; i < n; i++ {
			if i < k {
				res.bits[i] = a[0].bits[i]
			} else {
				res.bits[i] = a[0].bits[k-1]
			}
		}
	case OpIte:
		a := args()
		if a == nil {
			return fail
		}
		c := a[0].bits[0]
		for i := 0; i < n; i++ {
			d := pxor(a[1].bits[i], a[2].bits[i])
			cd, ok := pand(c, d)
			if !ok {
				return fail
			}
			res.bits[i] = pxor(a[2].bits[i], cd)
		}
	case OpEq:
		if t.Args[0].W == -1 {
			return atom(t)
		}
		a := args()
		if a == nil {
			return fail
		}
		p := pconst(true)
		for i := range a[0].bits {
			e := pnot(pxor(a[0].bits[i], a[1].bits[i]))
			var ok bool
			p, ok = pand(p, e)
			if !ok {
				return fail
			}
		}
		res.bits[0] = p
	case OpGFMul:
		a := args()
		if a == nil {
			return fail
		}
		x, y := a[0].bits, a[1].bits
		var prod [31]poly
		for k := range prod {
			prod[k] = poly{}
		}
		for i := 0; i < 16; i++ {
			if len(x[i]) == 0 {
				continue
			}
			for j := 0; j < 16; j++ {
				if len(y[j]) == 0 {
					continue
				}
				m, ok := pand(x[i], y[j])
				if !ok {
					return fail
				}
				prod[i+j] = pxor(prod[i+j], m)
				if len(prod[i+j]) > ANFCap {
					return fail
				}
			}
		}
		// reduce mod x^16 + x^12 + x^3 + x + 1
		for k := 30; k >= 16; k-- {
			if len(prod[k]) == 0 {
				continue
			}
			for _, d := range []int{12, 3, 1, 0} {
				prod[k-16+d] = pxor(prod[k-16+d], prod[k])
			}
		}
		copy(res.bits, prod[:16])
	default:
		return atom(t)
	}
	for _, p := range res.bits {
		if len(p) > ANFCap {
			return fail
		}
	}
	return res
}

// ANFEqual reports whether a and b have identical normal forms; decided is
// false when the normaliser gave up.
func ANFEqual(a, b *T) (equal, decided bool) {
	x, y := anf(a), anf(b)
	if !x.ok || !y.ok {
		return false, false
	}
	if len(x.bits) != len(y.bits) {
		return false, true
	}
	for i := range x.bits {
		if !peq(x.bits[i], y.bits[i]) {
			return false, true
		}
	}
	return true, true
}

// ANFProve reports whether the boolean term c normalises to the constant
// true.  A false result proves nothing.
func ANFProve(c *T) bool {
	if c.IsTrue() {
		return true
	}
	if c.Op == OpBAnd {
		for _, x := range c.Args {
			if !ANFProve(x) {
				return false
			}
		}
		return true
	}
	if c.Op == OpEq && c.Args[0].W > 0 {
		eq, dec := ANFEqual(c.Args[0], c.Args[1])
		return eq && dec
	}
	r := anf(c)
	return r.ok && peq(r.bits[0], pconst(true))
}

// ANFStats returns (degree, monomials) summed over the bits of t, or ok=false.
func ANFStats(t *T) (deg, monos int, ok bool) {
	r := anf(t)
	if !r.ok {
		return 0, 0, false
	}
	for _, p := range r.bits {
		monos += len(p)
		for m := range p {
			if len(m)/3 > deg {
				deg = len(m) / 3
			}
		}
	}
	return deg, monos, true
}

// AtomCount is the number of atom bits allocated so far.
func AtomCount() int { return len(atomBitIDs) }

var _ = sort.Ints
