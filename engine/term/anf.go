package term

import "sort"

// Bit-level algebraic normal form over GF(2).  Every bit of a term is a set of
// monomials; a monomial is a sorted set of atom-bit ids encoded 3 bytes each.
// Unsupported operators become opaque atoms, so equal ANF always implies equal
// value (sound); unequal ANF decides nothing.

type poly map[string]struct{}

type anfRes struct {
	bits []poly // index 0 = lsb; for Bool: 1 entry
	ok   bool
}

var (
	anfMemo    = map[uint32]*anfRes{}
	atomBitIDs = map[uint64]uint32{} // (termID<<8 | bit) -> id
	// ANFCap bounds the number of monomials per bit.
	ANFCap = 1 << 15
)

func atomBit(id uint32, bit int) string {
	k := uint64(id)<<8 | uint64(bit)
	v, ok := atomBitIDs[k]
	if !ok {
		v = uint32(len(atomBitIDs) + 1)
		atomBitIDs[k] = v
		atomByID[v] = atomRef{curAtom, bit}
	}
	return string([]byte{byte(v >> 16), byte(v >> 8), byte(v)})
}

func pconst(b bool) poly {
	if b {
		return poly{"": {}}
	}
	return poly{}
}

func pxor(a, b poly) poly {
	if len(a) < len(b) {
		a, b = b, a
	}
	r := make(poly, len(a)+len(b))
	for m := range a {
		r[m] = struct{}{}
	}
	for m := range b {
		if _, ok := r[m]; ok {
			delete(r, m)
		} else {
			r[m] = struct{}{}
		}
	}
	return r
}

func mmul(a, b string) string {
	if a == "" {
		return b
	}
	if b == "" {
		return a
	}
	// merge two sorted 3-byte sequences, dropping duplicates
	out := make([]byte, 0, len(a)+len(b))
	i, j := 0, 0
	for i < len(a) && j < len(b) {
		x, y := a[i:i+3], b[j:j+3]
		switch {
		case x == y:
			out = append(out, x...)
			i += 3
			j += 3
		case x < y:
			out = append(out, x...)
			i += 3
		default:
			out = append(out, y...)
			j += 3
		}
	}
	out = append(out, a[i:]...)
	out = append(out, b[j:]...)
	return string(out)
}

func pand(a, b poly) (poly, bool) {
	if len(a)*len(b) > 4*ANFCap {
		return nil, false
	}
	r := poly{}
	for x := range a {
		for y := range b {
			m := mmul(x, y)
			if _, ok := r[m]; ok {
				delete(r, m)
			} else {
				r[m] = struct{}{}
			}
		}
	}
	return r, len(r) <= ANFCap
}

func pnot(a poly) poly { return pxor(a, pconst(true)) }

func peq(a, b poly) bool {
	if len(a) != len(b) {
		return false
	}
	for m := range a {
		if _, ok := b[m]; !ok {
			return false
		}
	}
	return true
}

var curAtom *T

var DebugANF = false

func atom(t *T) *anfRes {
	curAtom = t
	n := t.W
	if n == 0 {
		n = 1
	}
	r := &anfRes{ok: true, bits: make([]poly, n)}
	for i := 0; i < n; i++ {
		r.bits[i] = poly{atomBit(t.ID, i): {}}
	}
	return r
}

var gfBasis [16][16]uint16 // not used; gfmul by const computed on the fly

func anf(t *T) *anfRes {
	if r, ok := anfMemo[t.ID]; ok {
		return r
	}
	r := anf1(t)
	anfMemo[t.ID] = r
	return r
}

func anf1(t *T) *anfRes {
	if t.W == -1 {
		return &anfRes{ok: false}
	}
	n := t.W
	if n == 0 {
		n = 1
	}
	fail := &anfRes{ok: false}
	args := func() []*anfRes {
		out := make([]*anfRes, len(t.Args))
		for i, a := range t.Args {
			out[i] = anf(a)
			if !out[i].ok {
				return nil
			}
		}
		return out
	}
	res := &anfRes{ok: true, bits: make([]poly, n)}
	switch t.Op {
	case OpConst:
		for i := 0; i < n; i++ {
			res.bits[i] = pconst(t.Val>>uint(i)&1 == 1)
		}
	case OpVar:
		return atom(t)
	case OpXor:
		a := args()
		if a == nil {
			return fail
		}
		for i := 0; i < n; i++ {
			p := poly{}
			for _, x := range a {
				p = pxor(p, x.bits[i])
			}
			res.bits[i] = p
		}
	case OpNot, OpBNot:
		a := args()
		if a == nil {
			return fail
		}
		for i := 0; i < n; i++ {
			res.bits[i] = pnot(a[0].bits[i])
		}
	case OpAnd, OpBAnd, OpOr, OpBOr:
		a := args()
		if a == nil {
			return fail
		}
		isOr := t.Op == OpOr || t.Op == OpBOr
		for i := 0; i < n; i++ {
			p := a[0].bits[i]
			if isOr {
				p = pnot(p)
			}
			for _, x := range a[1:] {
				q := x.bits[i]
				if isOr {
					q = pnot(q)
				}
				var ok bool
				p, ok = pand(p, q)
				if !ok {
					return fail
				}
			}
			if isOr {
				p = pnot(p)
			}
			res.bits[i] = p
		}
	case OpConcat:
		a := args()
		if a == nil {
			return fail
		}
		pos := n
		for _, x := range a {
			pos -= len(x.bits)
			copy(res.bits[pos:], x.bits)
		}
	case OpExtract:
		a := args()
		if a == nil {
			return fail
		}
		copy(res.bits, a[0].bits[t.Lo:t.Hi+1])
	case OpSExt:
		a := args()
		if a == nil {
			return fail
		}
		k := len(a[0].bits)
		for i := 0; i < n; i++ {
			if i < k {
				res.bits[i] = a[0].bits[i]
			} else {
				res.bits[i] = a[0].bits[k-1]
			}
		}
	case OpIte:
		a := args()
		if a == nil {
			return fail
		}
		c := a[0].bits[0]
		for i := 0; i < n; i++ {
			d := pxor(a[1].bits[i], a[2].bits[i])
			cd, ok := pand(c, d)
			if !ok {
				return fail
			}
			res.bits[i] = pxor(a[2].bits[i], cd)
		}
	case OpEq:
		if t.Args[0].W == -1 {
			return atom(t)
		}
		a := args()
		if a == nil {
			return fail
		}
		p := pconst(true)
		for i := range a[0].bits {
			e := pnot(pxor(a[0].bits[i], a[1].bits[i]))
			var ok bool
			p, ok = pand(p, e)
			if !ok {
				return fail
			}
		}
		res.bits[0] = p
	case OpGFMul:
		a := args()
		if a == nil {
			return fail
		}
		x, y := a[0].bits, a[1].bits
		var prod [31]poly
		for k := range prod {
			prod[k] = poly{}
		}
		for i := 0; i < 16; i++ {
			if len(x[i]) == 0 {
				continue
			}
			for j := 0; j < 16; j++ {
				if len(y[j]) == 0 {
					continue
				}
				m, ok := pand(x[i], y[j])
				if !ok {
					return fail
				}
				prod[i+j] = pxor(prod[i+j], m)
				if len(prod[i+j]) > ANFCap {
					return fail
				}
			}
		}
		// reduce mod x^16 + x^12 + x^3 + x + 1
		for k := 30; k >= 16; k-- {
			if len(prod[k]) == 0 {
				continue
			}
			for _, d := range []int{12, 3, 1, 0} {
				prod[k-16+d] = pxor(prod[k-16+d], prod[k])
			}
		}
		copy(res.bits, prod[:16])
	default:
		return atom(t)
	}
	for _, p := range res.bits {
		if len(p) > ANFCap {
			return fail
		}
	}
	return res
}

// ANFEqual reports whether a and b have identical normal forms; decided is
// false when the normaliser gave up.
func ANFEqual(a, b *T) (equal, decided bool) {
	x, y := anf(a), anf(b)
	if !x.ok || !y.ok {
		return false, false
	}
	if len(x.bits) != len(y.bits) {
		return false, true
	}
	for i := range x.bits {
		if !peq(x.bits[i], y.bits[i]) {
			return false, true
		}
	}
	return true, true
}

// ANFProve reports whether the boolean term c normalises to the constant
// true.  A false result proves nothing.
func ANFProve(c *T) bool {
	if c.IsTrue() {
		return true
	}
	if c.Op == OpBAnd {
		for _, x := range c.Args {
			if !ANFProve(x) {
				return false
			}
		}
		return true
	}
	if c.Op == OpEq && c.Args[0].W > 0 {
		eq, dec := ANFEqual(c.Args[0], c.Args[1])
		return eq && dec
	}
	r := anf(c)
	return r.ok && peq(r.bits[0], pconst(true))
}

// ANFStats returns (degree, monomials) summed over the bits of t, or ok=false.
func ANFStats(t *T) (deg, monos int, ok bool) {
	r := anf(t)
	if !r.ok {
		return 0, 0, false
	}
	for _, p := range r.bits {
		monos += len(p)
		for m := range p {
			if len(m)/3 > deg {
				deg = len(m) / 3
			}
		}
	}
	return deg, monos, true
}

// AtomCount is the number of atom bits allocated so far.
func AtomCount() int { return len(atomBitIDs) }

var _ = sort.Ints

// ---- rewriting of conditions: injective-hash equalities and affine systems ----

type atomRef struct {
	t   *T
	bit int
}

var atomByID = map[uint32]atomRef{}

func init() { resetHooks = append(resetHooks, func() { atomByID = map[uint32]atomRef{} }) }

// RewriteCond simplifies a boolean condition without changing its meaning
// (under the injective model of MD5): complete byte-wise comparisons of two
// MD5 values become comparisons of the hashed messages, and equalities between
// GF(2)-affine terms are replaced by their reduced row echelon form.
func RewriteCond(c *T) *T {
	switch c.Op {
	case OpBNot:
		return BNot(RewriteCond(c.Args[0]))
	case OpBOr:
		r := False
		for _, a := range c.Args {
			r = BOr(r, RewriteCond(a))
		}
		return r
	case OpBAnd:
		return rewriteAnd(c.Args)
	case OpEq:
		if c.Args[0].W > 0 {
			if r, ok := SolveAffineEq(c.Args[0], c.Args[1]); ok {
				return r
			}
		}
	}
	return c
}

func rewriteAnd(args []*T) *T {
	type pair struct{ a, b string }
	groups := map[pair][]*T{}
	msgs := map[pair][2][]*T{}
	var rest []*T
	key := func(m []*T) string {
		b := make([]byte, 0, 4*len(m)+1)
		for _, x := range m {
			b = append(b, byte(x.ID), byte(x.ID>>8), byte(x.ID>>16), byte(x.ID>>24))
		}
		return string(b)
	}
	for _, x := range args {
		if x.Op == OpEq && x.Args[0].Op == OpMD5Byte && x.Args[1].IsConst() {
			p := pair{key(x.Args[0].Args), "const"}
			groups[p] = append(groups[p], x)
			msgs[p] = [2][]*T{x.Args[0].Args, nil}
			continue
		}
		if x.Op == OpEq && x.Args[0].Op == OpMD5Byte && x.Args[1].Op == OpMD5Byte && x.Args[0].Lo == x.Args[1].Lo {
			p := pair{key(x.Args[0].Args), key(x.Args[1].Args)}
			groups[p] = append(groups[p], x)
			msgs[p] = [2][]*T{x.Args[0].Args, x.Args[1].Args}
			continue
		}
		rest = append(rest, x)
	}
	r := True
	// deterministic order
	var keys []pair
	for p := range groups {
		keys = append(keys, p)
	}
	sort.Slice(keys, func(i, j int) bool {
		if keys[i].a != keys[j].a {
			return keys[i].a < keys[j].a
		}
		return keys[i].b < keys[j].b
	})
	for _, p := range keys {
		g := groups[p]
		seen := map[int]bool{}
		for _, x := range g {
			seen[x.Args[0].Lo] = true
		}
		if len(seen) == 16 && p.b == "const" {
			var d [16]byte
			for _, x := range g {
				d[x.Args[0].Lo] = byte(x.Args[1].Val)
			}
			if msg, ok := LookupConcreteMD5(d); ok {
				m := msgs[p][0]
				if len(m) != len(msg) {
					return False
				}
				for i := range m {
					r = BAnd(r, Eq(m[i], Const(8, uint64(msg[i]))))
				}
				continue
			}
			for _, x := range g {
				rest = append(rest, x)
			}
			continue
		}
		if len(seen) == 16 {
			m := msgs[p]
			if len(m[0]) != len(m[1]) {
				return False
			}
			for i := range m[0] {
				r = BAnd(r, Eq(m[0][i], m[1][i]))
			}
			continue
		}
		for _, x := range g {
			rest = append(rest, x)
		}
	}
	for _, x := range rest {
		r = BAnd(r, RewriteCond(x))
	}
	return r
}

// SolveAffineEq rewrites a == b, when a^b is affine over GF(2) in its atom
// bits, into an equivalent conjunction "pivot bit == xor of other bits"
// (reduced row echelon form), or False when the system is inconsistent.
func SolveAffineEq(a, b *T) (*T, bool) {
	if a.W <= 0 || a.W > 64 {
		return nil, false
	}
	ra, rb := anf(a), anf(b)
	if !ra.ok || !rb.ok {
		if DebugANF {
			println("SolveAffineEq: anf failed", ra.ok, rb.ok, Size(a), Size(b))
		}
		return nil, false
	}
	type row struct {
		atoms map[uint32]bool
		c     bool
	}
	var rows []row
	total := 0
	for i := range ra.bits {
		p := pxor(ra.bits[i], rb.bits[i])
		r := row{atoms: map[uint32]bool{}}
		for m := range p {
			switch len(m) {
			case 0:
				r.c = !r.c
			case 3:
				id := uint32(m[0])<<16 | uint32(m[1])<<8 | uint32(m[2])
				r.atoms[id] = true
			default:
				if DebugANF {
					println("SolveAffineEq: not affine, monomial len", len(m))
				}
				return nil, false // not affine
			}
		}
		total += len(r.atoms)
		rows = append(rows, r)
	}
	if total == 0 {
		// both sides have the same variable-free normal form difference: decided here
		for _, r := range rows {
			if r.c {
				return False, true
			}
		}
		return True, true
	}
	if total > 4096 {
		return nil, false
	}
	// only worthwhile when something non-trivial is mixed (more than one atom per row)
	mixed := false
	for _, r := range rows {
		if len(r.atoms) > 2 {
			mixed = true
		}
	}
	if !mixed && Size(a, b) < 40 {
		// small, already simple equalities are left as they are
		return nil, false
	}
	if DebugANF {
		println("SolveAffineEq: solving", len(rows), "rows", total, "atoms")
	}
	// Gaussian elimination, pivoting on the largest atom id
	var out []row
	for len(rows) > 0 {
		r := rows[0]
		rows = rows[1:]
		if len(r.atoms) == 0 {
			if r.c {
				return False, true
			}
			continue
		}
		var piv uint32
		for id := range r.atoms {
			if id > piv {
				piv = id
			}
		}
		elim := func(x *row) {
			if x.atoms[piv] {
				for id := range r.atoms {
					if x.atoms[id] {
						delete(x.atoms, id)
					} else {
						x.atoms[id] = true
					}
				}
				x.c = x.c != r.c
			}
		}
		for i := range rows {
			elim(&rows[i])
		}
		for i := range out {
			elim(&out[i])
		}
		out = append(out, r)
	}
	res := True
	for _, r := range out {
		var piv uint32
		for id := range r.atoms {
			if id > piv {
				piv = id
			}
		}
		ids := make([]uint32, 0, len(r.atoms))
		for id := range r.atoms {
			if id != piv {
				ids = append(ids, id)
			}
		}
		sort.Slice(ids, func(i, j int) bool { return ids[i] < ids[j] })
		rhs := Const(1, 0)
		if r.c {
			rhs = Const(1, 1)
		}
		for _, id := range ids {
			rhs = Xor(rhs, atomBitTerm(id))
		}
		res = BAnd(res, mk(OpEq, 0, 0, "", 0, 0, atomBitTerm(piv), rhs))
	}
	return res, true
}

func atomBitTerm(id uint32) *T {
	ar, ok := atomByID[id]
	if !ok {
		panic("anf: unknown atom")
	}
	if ar.t.W == 0 {
		return Ite(ar.t, Const(1, 1), Const(1, 0))
	}
	return Extract(ar.t, ar.bit, ar.bit)
}
