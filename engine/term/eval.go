package term

import (
	"crypto/md5"
	"fmt"
)

// Eval evaluates t under the assignment (missing variables are 0). Select terms
// are resolved through sel (may be nil -> error).
func Eval(t *T, m map[string]uint64, sel func(name string, idx uint64) (uint64, bool)) (v uint64, err error) {
	memo := map[uint32]uint64{}
	defer func() {
		if r := recover(); r != nil {
			err = fmt.Errorf("eval: %v", r)
		}
	}()
	return eval(t, m, sel, memo), nil
}

func b2u(b bool) uint64 {
	if b {
		return 1
	}
	return 0
}

func sx(v uint64, w int) int64 {
	if w >= 64 || w < 0 {
		return int64(v)
	}
	sh := uint(64 - w)
	return int64(v<<sh) >> sh
}

func eval(t *T, m map[string]uint64, sel func(string, uint64) (uint64, bool), memo map[uint32]uint64) uint64 {
	if t.Op == OpConst {
		return t.Val
	}
	if v, ok := memo[t.ID]; ok {
		return v
	}
	a := make([]uint64, len(t.Args))
	if t.Op != OpIte && t.Op != OpMD5Byte {
		for i, x := range t.Args {
			a[i] = eval(x, m, sel, memo)
		}
	}
	var r uint64
	w := t.W
	aw := 0
	if len(t.Args) > 0 {
		aw = t.Args[0].W
	}
	switch t.Op {
	case OpVar:
		r = m[t.Name]
	case OpAdd:
		r = a[0] + a[1]
	case OpSub:
		r = a[0] - a[1]
	case OpMul:
		r = a[0] * a[1]
	case OpUDiv:
		if a[1] == 0 {
			r = mask(w)
		} else {
			r = a[0] / a[1]
		}
	case OpURem:
		if a[1] == 0 {
			r = a[0]
		} else {
			r = a[0] % a[1]
		}
	case OpSDiv:
		x, y := sx(a[0], w), sx(a[1], w)
		switch {
		case y == 0:
			if x < 0 {
				r = 1
			} else {
				r = mask(w)
			}
		case y == -1:
			r = uint64(-x)
		default:
			r = uint64(x / y)
		}
	case OpSRem:
		x, y := sx(a[0], w), sx(a[1], w)
		switch {
		case y == 0:
			r = uint64(x)
		case y == -1:
			r = 0
		default:
			r = uint64(x % y)
		}
	case OpAnd:
		r = a[0]
		for _, x := range a[1:] {
			r &= x
		}
	case OpOr:
		r = a[0]
		for _, x := range a[1:] {
			r |= x
		}
	case OpXor:
		for _, x := range a {
			r ^= x
		}
	case OpNot:
		r = ^a[0]
	case OpShl:
		if a[1] >= uint64(w) {
			r = 0
		} else {
			r = a[0] << a[1]
		}
	case OpLShr:
		if a[1] >= uint64(w) {
			r = 0
		} else {
			r = a[0] >> a[1]
		}
	case OpAShr:
		s := a[1]
		if s >= uint64(w) {
			s = uint64(w - 1)
		}
		r = uint64(sx(a[0], w) >> s)
	case OpConcat:
		for i, x := range t.Args {
			r = r<<uint(x.W) | a[i]
		}
	case OpExtract:
		r = a[0] >> uint(t.Lo)
	case OpSExt:
		r = uint64(sx(a[0], aw))
	case OpIte:
		if eval(t.Args[0], m, sel, memo) != 0 {
			r = eval(t.Args[1], m, sel, memo)
		} else {
			r = eval(t.Args[2], m, sel, memo)
		}
	case OpGFMul:
		r = uint64(GFMulConcrete(uint16(a[0]), uint16(a[1])))
	case OpMD5Byte:
		msg := make([]byte, len(t.Args))
		for i, x := range t.Args {
			msg[i] = byte(eval(x, m, sel, memo))
		}
		h := md5.Sum(msg)
		r = uint64(h[t.Lo])
	case OpSelect:
		if sel == nil {
			panic("select without array model: " + t.Name)
		}
		v, ok := sel(t.Name, a[0])
		if !ok {
			panic("select without array model: " + t.Name)
		}
		r = v
	case OpEq:
		r = b2u(a[0] == a[1])
	case OpUlt:
		r = b2u(a[0] < a[1])
	case OpUle:
		r = b2u(a[0] <= a[1])
	case OpSlt:
		r = b2u(sx(a[0], aw) < sx(a[1], aw))
	case OpSle:
		r = b2u(sx(a[0], aw) <= sx(a[1], aw))
	case OpBAnd:
		r = 1
		for _, x := range a {
			r &= x
		}
	case OpBOr:
		for _, x := range a {
			r |= x
		}
	case OpBNot:
		r = 1 - a[0]
	case OpIAdd:
		r = a[0] + a[1]
	case OpISub:
		r = a[0] - a[1]
	case OpIMul:
		r = a[0] * a[1]
	case OpIDiv:
		if a[1] == 0 {
			panic("int division by zero")
		}
		r = uint64(int64(a[0]) / int64(a[1]))
	case OpIMod:
		if a[1] == 0 {
			panic("int division by zero")
		}
		r = uint64(int64(a[0]) % int64(a[1]))
	case OpILt:
		r = b2u(int64(a[0]) < int64(a[1]))
	case OpILe:
		r = b2u(int64(a[0]) <= int64(a[1]))
	case OpInt2BV:
		r = a[0]
	case OpBV2Int:
		if t.Lo == 1 {
			r = uint64(sx(a[0], aw))
		} else {
			r = a[0]
		}
	default:
		panic(fmt.Sprintf("eval: op %d", t.Op))
	}
	if w > 0 {
		r &= mask(w)
	}
	memo[t.ID] = r
	return r
}
