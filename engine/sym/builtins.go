package sym

import (
	"fmt"
	"go/token"
	"go/types"

	"golang.org/x/tools/go/ssa"

	"verif/engine/term"
)

func (e *Engine) callBuiltin(caller *frame, pos token.Pos, fn *ssa.Builtin, args []Value) Value {
	switch fn.Name() {
	case "append":
		sig := fn.Type().(*types.Signature)
		var elem types.Type
		if st, ok := sig.Params().At(0).Type().Underlying().(*types.Slice); ok {
			elem = st.Elem()
		} else {
			elem = types.Typ[types.Uint8]
		}
		if len(args) == 1 {
			return args[0]
		}
		return e.appendVals(args[0], e.sliceElems(args[1]), elem)
	case "copy":
		return cint(e.copySlice(args[0], args[1]))
	case "len":
		switch x := args[0].(type) {
		case string:
			return cint(len(x))
		case *SymStr:
			return cint(len(x.B))
		case Array:
			return cint(len(x))
		case *Value:
			if x == nil {
				return cint(0)
			}
			return cint(len((*x).(Array)))
		case *Map:
			return cint(x.length())
		case AbsSlice:
			return x.Len
		case *Chan:
			return cint(0)
		default:
			return cint(e.sliceLen(x))
		}
	case "cap":
		switch x := args[0].(type) {
		case Array:
			return cint(len(x))
		case *Value:
			return cint(len((*x).(Array)))
		case AbsSlice:
			return x.Cap
		default:
			return cint(e.sliceCap(x))
		}
	case "delete":
		m, _ := args[0].(*Map)
		e.mapDelete(m, args[1])
		return nil
	case "print", "println":
		return nil
	case "recover":
		return e.doRecover(caller)
	case "ssa:wrapnilchk":
		if isNilVal(args[0]) {
			e.goPanic("runtime error: invalid memory address or nil pointer dereference (value method called via nil pointer)")
		}
		return args[0]
	case "min", "max":
		r := asT(args[0])
		sig := fn.Type().(*types.Signature)
		signed := isSigned(sig.Params().At(0).Type())
		for _, a := range args[1:] {
			x := asT(a)
			var lt *term.T
			if signed {
				lt = term.Slt(x, r)
			} else {
				lt = term.Ult(x, r)
			}
			if fn.Name() == "max" {
				lt = term.BAnd(term.BNot(lt), term.BNot(term.Eq(x, r)))
			}
			r = term.Ite(lt, x, r)
		}
		return r
	case "clear":
		switch x := args[0].(type) {
		case *Map:
			if x != nil {
				for i := range x.deleted {
					x.deleted[i] = true
				}
				x.index = map[string]int{}
				x.n = 0
			}
		default:
			panic(unsupported("clear of slice"))
		}
		return nil
	case "close":
		return nil
	}
	panic(unsupported("builtin " + fn.Name()))
}

func (e *Engine) doRecover(caller *frame) Value {
	// recover() is effective only when called directly by a deferred function
	// while the deferring frame is panicking.
	if caller != nil && caller.caller != nil && caller.caller.panicking {
		fr := caller.caller
		fr.panicking = false
		tp := fr.panicVal.(targetPanic)
		fr.panicVal = nil
		if v, ok := tp.v.(Iface); ok {
			return v
		}
		return Iface{T: types.Typ[types.String], V: fmt.Sprint(tp.v)}
	}
	return Iface{}
}
