package sym

import (
	"fmt"
	"go/token"
	"go/types"
	"os"
	"sort"
	"strings"
	"time"
	"unicode/utf8"

	"golang.org/x/tools/go/ssa"

	"verif/engine/solver"
	"verif/engine/term"
)

// Options are per-harness engine settings (set by zzverifrt.Option calls at
// the start of the harness or from the command line).
type Options struct {
	ForkShifts    bool
	IntMode       bool
	MaxSteps      int
	MaxPaths      int
	MaxChoices    int
	NoMerge       bool
	MinimizeWords bool // counterexamples and witnesses: shrink 64-bit inputs too
	StopAtFirst   bool
	Footprints    bool
	ReverseTasks  bool
}

type targetPanic struct{ v Value }

type rtypeMethod struct{ name string }

// pathEnd unwinds the whole interpreter at the end of a path.
type pathEnd struct{ why string }

type exitPanic struct{ code *term.T }

type deferred struct {
	fn   Value
	args []Value
	pos  token.Pos
}

type frame struct {
	e         *Engine
	caller    *frame
	fn        *ssa.Function
	block     *ssa.BasicBlock
	prev      *ssa.BasicBlock
	env       map[ssa.Value]Value
	defers    []*deferred
	result    Value
	panicking bool
	panicVal  interface{}
	cut       *cutState
	mergeCond []*mergeArm
	skipPhis  bool
}

// tableLoopSpec describes the counted loop that fills a multiplication table
// (rt.TableLoop): index variable, its range, and the number of table cells an
// iteration must store.
type tableLoopSpec struct {
	varName       string
	lo, hi        int64
	storesPerIter int
	phi           *ssa.Phi
	iv            *term.T
	stores        map[string]*term.T
}

type cutSpec struct {
	fnName string
	loop   int
	inv    Value // func value
}

type cutState struct {
	spec     *cutSpec
	header   *ssa.BasicBlock
	active   bool
	bodyOnly bool
	inLoop   map[*ssa.BasicBlock]bool
}

// loopBlocks returns the natural loop of header h.
func loopBlocks(h *ssa.BasicBlock) map[*ssa.BasicBlock]bool {
	in := map[*ssa.BasicBlock]bool{h: true}
	var stack []*ssa.BasicBlock
	for _, p := range h.Preds {
		if h.Dominates(p) && !in[p] {
			in[p] = true
			stack = append(stack, p)
		}
	}
	for len(stack) > 0 {
		b := stack[len(stack)-1]
		stack = stack[:len(stack)-1]
		for _, p := range b.Preds {
			if !in[p] {
				in[p] = true
				stack = append(stack, p)
			}
		}
	}
	return in
}

type mergeArm struct {
	join *ssa.BasicBlock
	cond *term.T
	from [2]*ssa.BasicBlock // predecessor blocks for true / false
	vals [2]map[*ssa.Phi]Value
}

type task struct {
	fn   Value
	args []Value
	pos  token.Pos
}

// Engine holds the program and the state of the current path.
type Engine struct {
	prog    *ssa.Program
	sizes   types.Sizes
	globals map[*ssa.Global]*Value
	// state of the package-level variables after initialisation: small ones are
	// restored at the start of every path, large ones (tables) are assumed immutable
	globalSnap map[*ssa.Global]Value
	globalBig  map[*ssa.Global]bool
	inited     map[*ssa.Package]bool
	initing    bool
	S          *solver.Solver
	opt        Options

	runtimeErrT types.Type

	// current path
	pc        []*term.T
	prefix    []uint64
	decisions []uint64
	pending   [][]uint64
	steps     int
	fresh     map[string]int
	notes     map[string]int
	replaced  map[string]Value
	cuts      map[string]*cutSpec
	tasks     []*task
	curTask   int
	foot      map[int]*footprint
	exitCode  *term.T

	res *Result
	dbg bool

	spec          *term.T
	mapOrder      func([]int) []int
	mapOrderN     int
	cwd           string
	absKernel     []absKernelCall
	wgAdd         int
	wgSym         *term.T
	lastTaskCount int
	notExist      *Value
	pinned        map[string]uint64
	program       *Program
	fnByName      map[string]*ssa.Function
	crossN        map[string]int
	decided       map[uint32]bool
	pcVars        map[uint32]bool
	pcSeen        map[uint32]bool
	uniq          map[uint32]uniqRes
	tableInit     *ssa.Function
	skipInit      map[*ssa.Function]func()
	dirs          map[string][]Value
	files         map[string][]Value // modelled regular files (osfile.go)
	dirOff        map[*Value]int     // read position of modelled directory handles
	md5Acc        map[*Value][]Value // bytes written to streaming MD5 digests
	pools         map[*Value][]Value // free lists of sync.Pool values
	gomaxprocs    *term.T
	tableLoop     *tableLoopSpec
	trace         []string
	curFn         *ssa.Function
	curInstr      ssa.Instruction
}

// FuncHash returns the source hash of an executed function.
func (e *Engine) FuncHash(name string) string {
	if f := e.fnByName[name]; f != nil {
		return e.program.SourceHash(f)
	}
	return ""
}

type footprint struct {
	reads, writes map[*Value]bool
}

func (e *Engine) replaying() bool { return len(e.decisions) < len(e.prefix) }

func (e *Engine) note(s string) { e.notes[s]++ }

func (e *Engine) posStr(p token.Pos) string {
	if !p.IsValid() {
		return "?"
	}
	pos := e.prog.Fset.Position(p)
	f := pos.Filename
	if i := strings.LastIndex(f, "/"); i >= 0 {
		if j := strings.LastIndex(f[:i], "/"); j >= 0 {
			f = f[j+1:]
		}
	}
	return fmt.Sprintf("%s:%d", f, pos.Line)
}

func (e *Engine) recordAccess(p *Value, write bool) {
	if !e.opt.Footprints || e.curTask < 0 {
		return
	}
	fp := e.foot[e.curTask]
	if fp == nil {
		fp = &footprint{reads: map[*Value]bool{}, writes: map[*Value]bool{}}
		e.foot[e.curTask] = fp
	}
	if write {
		fp.writes[p] = true
	} else {
		fp.reads[p] = true
	}
}

// goPanic raises a Go-level run-time panic in the interpreted program.
func (e *Engine) goPanic(msg string) {
	panic(targetPanic{Iface{T: e.runtimeErrT, V: msg}})
}

// ---- decisions ----

func (e *Engine) assertPC(c *term.T) {
	if c.IsTrue() {
		return
	}
	e.pc = append(e.pc, c)
	e.S.Assert(c)
	// remember which variables the path condition mentions
	stack := []*term.T{c}
	for len(stack) > 0 {
		t := stack[len(stack)-1]
		stack = stack[:len(stack)-1]
		if e.pcSeen[t.ID] {
			continue
		}
		e.pcSeen[t.ID] = true
		if t.Op == term.OpVar {
			e.pcVars[t.ID] = true
		}
		stack = append(stack, t.Args...)
	}
}

// freeLiteral reports whether c is a (negated) boolean variable that the path
// condition does not mention: both outcomes are then feasible.
func (e *Engine) freeLiteral(c *term.T) bool {
	if c.Op == term.OpBNot {
		c = c.Args[0]
	}
	return c.Op == term.OpVar && !e.pcVars[c.ID]
}

// branch decides a symbolic condition, forking when both sides are feasible.
func (e *Engine) branch(c *term.T, what string) bool {
	term.DebugANF = e.dbg
	if !c.IsConst() {
		c = term.RewriteCond(c)
	}
	if c.IsTrue() {
		return true
	}
	if c.IsFalse() {
		return false
	}
	if e.dbg && c.Op == term.OpEq && c.Args[0].W == 32 {
		_, ok := term.SolveAffineEq(c.Args[0], c.Args[1])
		d, m, aok := term.ANFStats(c.Args[0])
		fmt.Fprintf(os.Stderr, "UNREWRITTEN 32-bit eq: solve ok=%v anf ok=%v deg=%d monos=%d size=%d rhsconst=%v\n", ok, aok, d, m, term.Size(c), c.Args[1].IsConst())
	}
	if e.initing {
		panic(unsupported("symbolic branch during package initialisation"))
	}
	if v, ok := e.decided[c.ID]; ok {
		return v
	}
	defer func() {
		if n := len(e.decisions); n > 0 {
			e.decided[c.ID] = e.decisions[n-1] == 1
			if nc := term.BNotNoCreate(c); nc != nil {
				e.decided[nc.ID] = e.decisions[n-1] != 1
			}
		}
	}()
	var d uint64
	if e.replaying() {
		d = e.prefix[len(e.decisions)]
	} else if e.freeLiteral(c) {
		alt := append(append([]uint64(nil), e.decisions...), 0)
		e.pending = append(e.pending, alt)
		d = 1
	} else {
		t0 := time.Now()
		defer func() {
			if dt := time.Since(t0).Seconds(); dt > 0.5 && e.dbg {
				fmt.Fprintf(os.Stderr, "  slow branch (%.1fs) %s%s cond=%s\n", dt, what, e.where(), c)
			}
		}()
		rt, _ := e.S.CheckWith(c, nil)
		e.res.FeasQueries++
		switch rt {
		case solver.Unsat:
			d = 0
		default:
			if rt == solver.Unknown {
				e.res.UnknownFeas++
			}
			rf, _ := e.S.CheckWith(term.BNot(c), nil)
			e.res.FeasQueries++
			if rf == solver.Unknown {
				e.res.UnknownFeas++
			}
			if rf == solver.Unsat {
				d = 1
			} else {
				// both feasible: take true now, false later
				alt := append(append([]uint64(nil), e.decisions...), 0)
				e.pending = append(e.pending, alt)
				d = 1
			}
		}
	}
	e.decisions = append(e.decisions, d)
	if e.dbg {
		e.trace = append(e.trace, fmt.Sprintf("%s=%d@%s", what, d, e.posStr(e.curPos())))
	}
	if d == 1 {
		e.assertPC(c)
		return true
	}
	e.assertPC(term.BNot(c))
	return false
}

// concretize forks over the feasible values of t.
func (e *Engine) concretize(t *term.T, what string) uint64 {
	return e.concretizeMax(t, what, 0)
}

func (e *Engine) concretizeMax(t *term.T, what string, limit int) uint64 {
	if t.IsConst() {
		return t.Val
	}
	if e.initing {
		panic(unsupported("symbolic value during package initialisation"))
	}
	var v uint64
	if e.replaying() {
		v = e.prefix[len(e.decisions)]
	} else {
		max := e.opt.MaxChoices
		if max == 0 {
			max = 600
		}
		if limit > max {
			max = limit
		}
		var vals []uint64
		e.S.Push()
		vars := []*term.T{}
		probe := term.Var(fmt.Sprintf("probe!%d", t.W), t.W)
		if t.IsInt() {
			probe = term.Var("probe!int", -1)
		}
		e.S.Assert(term.Eq(probe, t))
		vars = append(vars, probe)
		for {
			r := e.S.Check()
			e.res.FeasQueries++
			if r == solver.Unknown {
				e.S.Pop()
				panic(unsupported("solver unknown while enumerating values for " + what))
			}
			if r == solver.Unsat {
				break
			}
			m := e.S.Model(vars)
			val := m[probe.Name]
			vals = append(vals, val)
			if len(vals) > max {
				e.S.Pop()
				panic(unsupported(fmt.Sprintf("more than %d feasible values for %s at concretisation", max, what)))
			}
			var cv *term.T
			if t.IsInt() {
				cv = term.IntConst(int64(val))
			} else {
				cv = term.Const(t.W, val)
			}
			e.S.Assert(term.BNot(term.Eq(probe, cv)))
		}
		e.S.Pop()
		if len(vals) == 0 {
			panic(pathEnd{"infeasible"})
		}
		sort.Slice(vals, func(i, j int) bool { return vals[i] < vals[j] })
		v = vals[0]
		for i := len(vals) - 1; i >= 1; i-- {
			alt := append(append([]uint64(nil), e.decisions...), vals[i])
			e.pending = append(e.pending, alt)
		}
	}
	e.decisions = append(e.decisions, v)
	if t.IsInt() {
		e.assertPC(term.Eq(t, term.IntConst(int64(v))))
	} else {
		e.assertPC(term.Eq(t, term.Const(t.W, v)))
	}
	return v
}

// uniqueValue reports whether t has exactly one value on the current path.
func (e *Engine) uniqueValue(t *term.T) (uint64, bool) {
	if t.IsConst() {
		return t.Val, true
	}
	if e.initing || t.IsInt() || t.W <= 0 {
		return 0, false
	}
	if v, ok := e.uniq[t.ID]; ok {
		return v.v, v.ok
	}
	constrained := false
	for _, v := range term.VarsOf(t) {
		if e.pcVars[v.ID] {
			constrained = true
			break
		}
	}
	if !constrained {
		e.uniq[t.ID] = uniqRes{}
		return 0, false
	}
	// deterministic: no decision is recorded; the answer depends only on the pc
	probe := term.Var(fmt.Sprintf("probe!%d", t.W), t.W)
	e.S.Push()
	e.S.Assert(term.Eq(probe, t))
	r := e.S.Check()
	e.res.FeasQueries++
	res := uniqRes{}
	if r == solver.Sat {
		m := e.S.Model([]*term.T{probe})
		v := m[probe.Name]
		e.S.Assert(term.BNot(term.Eq(probe, term.Const(t.W, v))))
		r2 := e.S.Check()
		e.res.FeasQueries++
		if r2 == solver.Unsat {
			res = uniqRes{v, true}
		}
	}
	e.S.Pop()
	e.uniq[t.ID] = res
	return res.v, res.ok
}

type uniqRes struct {
	v  uint64
	ok bool
}

// ---- frames ----

func (fr *frame) get(key ssa.Value) Value {
	switch key := key.(type) {
	case nil:
		return nil
	case *ssa.Function:
		return key
	case *ssa.Builtin:
		return key
	case *ssa.Const:
		return constValue(key)
	case *ssa.Global:
		return fr.e.global(key)
	}
	if r, ok := fr.env[key]; ok {
		return r
	}
	panic(fmt.Sprintf("get: no value for %T: %v in %s", key, key.Name(), fr.fn))
}

// leaves counts the scalar cells of v up to limit (slices are followed).
func leaves(v Value, limit int) int {
	n := 0
	var walk func(Value)
	walk = func(v Value) {
		if n > limit {
			return
		}
		switch x := v.(type) {
		case Struct:
			for _, y := range x {
				walk(y)
			}
		case Array:
			n += len(x)
			if len(x) > 0 {
				if _, scalar := x[0].(*term.T); !scalar {
					for _, y := range x {
						walk(y)
					}
				}
			}
		case Tuple:
			for _, y := range x {
				walk(y)
			}
		case []Value:
			n += len(x)
			if len(x) > 0 {
				if _, scalar := x[0].(*term.T); !scalar {
					for _, y := range x {
						walk(y)
					}
				}
			}
		default:
			n++
		}
	}
	walk(v)
	return n
}

// snapCopy copies aggregates and slice contents (pointers and maps are shared).
func snapCopy(v Value) Value {
	switch x := v.(type) {
	case Struct:
		c := make(Struct, len(x))
		for i, y := range x {
			c[i] = snapCopy(y)
		}
		return c
	case Array:
		c := make(Array, len(x))
		for i, y := range x {
			c[i] = snapCopy(y)
		}
		return c
	case Tuple:
		c := make(Tuple, len(x))
		for i, y := range x {
			c[i] = snapCopy(y)
		}
		return c
	case []Value:
		if x == nil {
			return x
		}
		c := make([]Value, len(x), cap(x))
		for i, y := range x {
			c[i] = snapCopy(y)
		}
		return c
	}
	return v
}

// resetGlobals gives every path the package-level state that initialisation
// left behind: a path must not see what an earlier path stored.
func (e *Engine) resetGlobals() {
	if e.globalSnap == nil {
		e.globalSnap = map[*ssa.Global]Value{}
		e.globalBig = map[*ssa.Global]bool{}
		for g, cell := range e.globals {
			if leaves(*cell, 4096) > 4096 {
				e.globalBig[g] = true
				continue
			}
			e.globalSnap[g] = snapCopy(*cell)
		}
		return
	}
	for g, cell := range e.globals {
		if e.globalBig[g] {
			continue
		}
		if v, ok := e.globalSnap[g]; ok {
			*cell = snapCopy(v)
		} else {
			// first touched during an earlier path: back to its zero value
			delete(e.globals, g)
		}
	}
}

func (e *Engine) global(g *ssa.Global) *Value {
	if p, ok := e.globals[g]; ok {
		return p
	}
	cell := new(Value)
	name := g.Pkg.Pkg.Path() + "." + g.Name()
	switch name {
	case "github.com/akalin/gopar/gf2p16.mulTable":
		*cell = TableRef{Kind: "mulTable", Field: -1}
	case "github.com/akalin/gopar/gf2p16.mulTable64":
		*cell = TableRef{Kind: "mulTable64", Field: -1}
	default:
		*cell = zero(deref(g.Type()))
	}
	e.globals[g] = cell
	return cell
}

func (e *Engine) call(caller *frame, pos token.Pos, fn Value, args []Value) Value {
	switch fn := fn.(type) {
	case *ssa.Function:
		if fn == nil {
			e.goPanic("runtime error: invalid memory address or nil pointer dereference (nil func)")
		}
		return e.callSSA(caller, pos, fn, args, nil)
	case *Closure:
		return e.callSSA(caller, pos, fn.Fn, args, fn.Env)
	case *ssa.Builtin:
		return e.callBuiltin(caller, pos, fn, args)
	case *rtypeMethod:
		rt := args[0].(RType)
		switch fn.name {
		case "Size":
			return term.Const(64, uint64(e.sizes.Sizeof(rt.T)))
		case "Elem":
			switch u := rt.T.Underlying().(type) {
			case *types.Pointer:
				return Iface{T: rtypeMarker, V: RType{u.Elem()}}
			case *types.Slice:
				return Iface{T: rtypeMarker, V: RType{u.Elem()}}
			case *types.Array:
				return Iface{T: rtypeMarker, V: RType{u.Elem()}}
			}
		case "String":
			return rt.T.String()
		case "Comparable":
			return term.Bool(types.Comparable(rt.T))
		}
		panic(unsupported("reflect.Type method " + fn.name))
	}
	panic(unsupported(fmt.Sprintf("call of %T", fn)))
}

func fnName(fn *ssa.Function) string {
	s := fn.String()
	return s
}

func (e *Engine) callSSA(caller *frame, pos token.Pos, fn *ssa.Function, args []Value, env []Value) Value {
	name := fnName(fn)
	if rep, ok := e.replaced[name]; ok && !e.initing {
		e.note("replaced:" + name)
		return e.call(caller, pos, rep, args)
	}
	if in, ok := intrinsics[name]; ok {
		return in(e, caller, pos, args)
	}
	if strings.HasPrefix(name, "slices.Sort[") {
		return sortStrings(e, caller, pos, args)
	}
	if e.initing {
		if f, ok := e.skipInit[fn]; ok {
			f()
			return nil
		}
	}
	if fn.Synthetic != "" && strings.HasPrefix(fn.Synthetic, "package initializer") {
		e.initPackage(fn.Pkg)
		return nil
	}
	if fn.Blocks == nil {
		if fn.Origin() != nil || len(fn.TypeArgs()) > 0 {
			panic(unsupported("generic function without body: " + name))
		}
		panic(unsupported("no body (assembly / external): " + name))
	}
	if !e.initing && strings.Contains(name, "akalin/gopar") {
		e.res.Funcs[name]++
		if e.fnByName == nil {
			e.fnByName = map[string]*ssa.Function{}
		}
		e.fnByName[name] = fn
	}
	fr := &frame{e: e, caller: caller, fn: fn, env: make(map[ssa.Value]Value, 32)}
	fr.block = fn.Blocks[0]
	for _, l := range fn.Locals {
		cell := new(Value)
		*cell = zero(deref(l.Type()))
		fr.env[l] = cell
	}
	for i, p := range fn.Params {
		fr.env[p] = args[i]
	}
	for i, fv := range fn.FreeVars {
		fr.env[fv] = env[i]
	}
	if cs, ok := e.cuts[name]; ok && !e.initing {
		fr.cut = &cutState{spec: cs, header: loopHeader(fn, cs.loop)}
	}
	for fr.block != nil {
		e.runFrame(fr)
	}
	return fr.result
}

// loopHeader returns the n-th loop header block (blocks with a back edge from
// a block they dominate), in block order.
func loopHeader(fn *ssa.Function, n int) *ssa.BasicBlock {
	k := 0
	for _, b := range fn.Blocks {
		isHeader := false
		for _, p := range b.Preds {
			if b.Dominates(p) {
				isHeader = true
			}
		}
		if isHeader {
			if k == n {
				return b
			}
			k++
		}
	}
	panic(unsupported(fmt.Sprintf("function %s has no loop #%d", fn, n)))
}

func (e *Engine) runFrame(fr *frame) {
	defer func() {
		if fr.block == nil {
			return
		}
		r := recover()
		tp, ok := r.(targetPanic)
		if !ok {
			panic(r)
		}
		fr.panicking = true
		fr.panicVal = tp
		fr.runDefers()
		// recovered
		fr.block = fr.fn.Recover
		if fr.block == nil {
			// no named results: return zero values
			fr.result = zeroResults(fr.fn)
		}
	}()
	for {
		e.enterBlock(fr)
		for _, instr := range fr.block.Instrs {
			if _, ok := instr.(*ssa.Phi); ok {
				continue
			}
			e.steps++
			if e.steps > e.opt.MaxSteps {
				panic(unsupported(fmt.Sprintf("step limit %d exceeded (unwinding bound)", e.opt.MaxSteps)))
			}
			e.curFn, e.curInstr = fr.fn, instr
			if e.visitInstr(fr, instr) == kReturn {
				return
			}
		}
	}
}

func (e *Engine) curPos() token.Pos {
	if e.curInstr == nil {
		return token.NoPos
	}
	return e.curInstr.Pos()
}

// where describes the instruction being executed (for diagnostics).
func (e *Engine) where() string {
	if e.curFn == nil || e.curInstr == nil {
		return ""
	}
	return fmt.Sprintf(" [in %s at %s: %v]", e.curFn, e.posStr(e.curInstr.Pos()), e.curInstr)
}

func zeroResults(fn *ssa.Function) Value {
	res := fn.Signature.Results()
	switch res.Len() {
	case 0:
		return nil
	case 1:
		return zero(res.At(0).Type())
	}
	return zero(res)
}

func (fr *frame) runDefers() {
	for len(fr.defers) > 0 {
		d := fr.defers[len(fr.defers)-1]
		fr.defers = fr.defers[:len(fr.defers)-1]
		func() {
			ok := false
			defer func() {
				if ok {
					return
				}
				r := recover()
				if tp, isTP := r.(targetPanic); isTP {
					fr.panicking = true
					fr.panicVal = tp
					return
				}
				panic(r)
			}()
			fr.e.call(fr, d.pos, d.fn, d.args)
			ok = true
		}()
	}
	if fr.panicking {
		panic(fr.panicVal)
	}
}

// maxTasksPerJoin bounds the goroutines a path may spawn before it joins them.
const maxTasksPerJoin = 24

type continuation int

const (
	kNext continuation = iota
	kReturn
	kJump
)

// enterBlock executes the phis of fr.block (parallel assignment), handling
// invariant cuts and merged diamonds.
func (e *Engine) enterBlock(fr *frame) {
	b := fr.block
	var phis []*ssa.Phi
	for _, instr := range b.Instrs {
		if p, ok := instr.(*ssa.Phi); ok {
			phis = append(phis, p)
		} else {
			break
		}
	}
	// merged diamond join?
	if n := len(fr.mergeCond); n > 0 && fr.mergeCond[n-1].join == b {
		arm := fr.mergeCond[n-1]
		fr.mergeCond = fr.mergeCond[:n-1]
		for _, p := range phis {
			fr.env[p] = mergeValues(arm.cond, arm.vals[0][p], arm.vals[1][p])
		}
		return
	}
	if fr.skipPhis {
		fr.skipPhis = false
		return
	}
	if fr.cut != nil && fr.cut.bodyOnly && !fr.cut.inLoop[b] {
		if tl := e.tableLoop; tl != nil && tl.iv != nil {
			e.obligation(term.BNot(term.Slt(tl.iv, term.Const(tl.iv.W, uint64(tl.hi)))), "table-contract: the table loop is left only when the index has reached the table length", false)
		}
		panic(pathEnd{"loop-exit"})
	}
	if fr.cut != nil && fr.cut.header == b {
		if fr.cut.bodyOnly {
			if tl := e.tableLoop; tl != nil && tl.iv != nil {
				e.tableLoopBackEdge(fr, b, tl)
			}
			panic(pathEnd{"cut"})
		}
		e.cutAtHeader(fr, phis)
		return
	}
	if len(phis) == 0 {
		return
	}
	pi := -1
	for i, p := range b.Preds {
		if p == fr.prev {
			pi = i
			break
		}
	}
	if pi < 0 {
		panic("phi: predecessor not found")
	}
	tmp := make([]Value, len(phis))
	for i, p := range phis {
		tmp[i] = fr.get(p.Edges[pi])
	}
	for i, p := range phis {
		fr.env[p] = tmp[i]
	}
}

// tableLoopBackEdge: one iteration of a table-filling loop has run from an
// arbitrary index iv: it ran for an index inside the table, stored every cell
// of entry iv (and of no other entry), and advances the index by one.
func (e *Engine) tableLoopBackEdge(fr *frame, h *ssa.BasicBlock, tl *tableLoopSpec) {
	w := tl.iv.W
	e.obligation(term.Slt(tl.iv, term.Const(w, uint64(tl.hi))), "table-contract: the loop body runs only for indices below the table length", false)
	pi := -1
	for i, p := range h.Preds {
		if p == fr.prev {
			pi = i
		}
	}
	if pi >= 0 {
		next := asT(fr.get(tl.phi.Edges[pi]))
		e.obligation(term.Eq(next, term.Add(tl.iv, term.Const(w, 1))), "table-contract: the table loop advances its index by one", false)
	}
	e.obligation(term.Bool(len(tl.stores) == tl.storesPerIter), fmt.Sprintf("table-contract: one iteration stores all %d cells of its table entry (stored: %d)", tl.storesPerIter, len(tl.stores)), false)
	same := term.True
	for _, c := range tl.stores {
		same = term.BAnd(same, term.Eq(c, term.Extract(tl.iv, c.W-1, 0)))
	}
	e.obligation(same, "table-contract: iteration i stores into table entry i", false)
	e.res.Reached["table-loop:back-edge"]++
}

func mergeValues(c *term.T, a, b Value) Value {
	at, ok1 := a.(*term.T)
	bt, ok2 := b.(*term.T)
	if ok1 && ok2 {
		if at.IsInt() != bt.IsInt() {
			if at.IsInt() {
				bt = term.BV2Int(bt, true)
			} else {
				at = term.BV2Int(at, true)
			}
		}
		return term.Ite(c, at, bt)
	}
	panic(unsupported("merge of non-scalar values"))
}

// cutAtHeader implements the invariant cut: initiation on first entry,
// havoc + assume, and preservation check + path end on the back edge.
func (e *Engine) cutAtHeader(fr *frame, phis []*ssa.Phi) {
	cs := fr.cut
	pi := -1
	for i, p := range fr.block.Preds {
		if p == fr.prev {
			pi = i
		}
	}
	vals := make([]Value, len(phis))
	for i, p := range phis {
		vals[i] = fr.get(p.Edges[pi])
	}
	callInv := func(vals []Value) *term.T {
		fn := cs.spec.inv
		var sig *types.Signature
		switch f := fn.(type) {
		case *ssa.Function:
			sig = f.Signature
		case *Closure:
			sig = f.Fn.Signature
		default:
			panic(unsupported("cut invariant is not a function"))
		}
		var args []Value
		for i := 0; i < sig.Params().Len(); i++ {
			pn := sig.Params().At(i).Name()
			var found Value
			if strings.HasPrefix(pn, "in_") {
				for _, prm := range fr.fn.Params {
					if prm.Name() == pn[3:] {
						found = fr.env[prm]
					}
				}
			} else {
				for j, p := range phis {
					if p.Comment == pn {
						found = vals[j]
					}
				}
			}
			if found == nil {
				panic(unsupported(fmt.Sprintf("cut invariant parameter %q matches no loop variable of %s", pn, fr.fn)))
			}
			args = append(args, found)
		}
		return asT(e.call(fr, token.NoPos, fn, args))
	}
	if !cs.active {
		// initiation
		e.obligation(callInv(vals), "cut-init:"+cs.spec.fnName, false)
		hv := make([]Value, len(phis))
		for i, p := range phis {
			w := typeWidth(p.Type())
			if w < 0 {
				panic(unsupported("cut over non-scalar loop variable " + p.Comment))
			}
			hv[i] = e.freshVar("cut_"+p.Comment, w)
		}
		for i, p := range phis {
			fr.env[p] = hv[i]
		}
		// satisfiable by construction: the entry values were just shown to satisfy it
		e.assertPC(callInv(hv))
		cs.active = true
		e.note("cut:" + cs.spec.fnName)
		return
	}
	// back edge: preservation, then the path ends here
	e.obligation(callInv(vals), "cut-step:"+cs.spec.fnName, false)
	panic(pathEnd{"cut"})
}

func (e *Engine) freshVar(base string, w int) *term.T {
	n := e.fresh[base]
	e.fresh[base] = n + 1
	name := base
	if n > 0 {
		name = fmt.Sprintf("%s#%d", base, n)
	}
	v := term.Var(name, w)
	e.res.noteVar(v)
	return v
}

func pureInstr(instr ssa.Instruction) bool {
	switch i := instr.(type) {
	case *ssa.BinOp:
		switch i.Op {
		case token.QUO, token.REM:
			return false
		}
		_, ok := i.X.Type().Underlying().(*types.Basic)
		return ok
	case *ssa.UnOp:
		return i.Op != token.MUL && i.Op != token.ARROW
	case *ssa.Convert:
		_, ok1 := i.X.Type().Underlying().(*types.Basic)
		_, ok2 := i.Type().Underlying().(*types.Basic)
		return ok1 && ok2
	case *ssa.ChangeType, *ssa.DebugRef:
		return true
	}
	return false
}

// tryMerge recognises triangles and diamonds whose arms are pure and merges
// them into ite-phis instead of forking.
func (e *Engine) tryMerge(fr *frame, instr *ssa.If, c *term.T) bool {
	if e.opt.NoMerge || e.opt.ForkShifts && false {
		return false
	}
	b := instr.Block()
	t, f := b.Succs[0], b.Succs[1]
	armOK := func(a *ssa.BasicBlock) (*ssa.BasicBlock, bool) {
		if len(a.Preds) != 1 || len(a.Instrs) == 0 {
			return nil, false
		}
		for _, in := range a.Instrs[:len(a.Instrs)-1] {
			if !pureInstr(in) {
				return nil, false
			}
		}
		j, ok := a.Instrs[len(a.Instrs)-1].(*ssa.Jump)
		if !ok {
			return nil, false
		}
		return j.Block().Succs[0], true
	}
	var join *ssa.BasicBlock
	var arms [2]*ssa.BasicBlock // executed arm blocks (nil = direct edge)
	if jt, ok := armOK(t); ok && jt == f {
		join, arms[0] = f, t
	} else if jf, ok := armOK(f); ok && jf == t {
		join, arms[1] = t, f
	} else if jt, ok1 := armOK(t); ok1 {
		if jf, ok2 := armOK(f); ok2 && jt == jf {
			join, arms[0], arms[1] = jt, t, f
		}
	}
	if join == nil {
		return false
	}
	// a join that is the cut point of an invariant cut is handled by the cut
	if fr.cut != nil && fr.cut.header == join {
		return false
	}
	var phis []*ssa.Phi
	for _, in := range join.Instrs {
		if p, ok := in.(*ssa.Phi); ok {
			if typeWidth(p.Type()) < 0 {
				return false
			}
			phis = append(phis, p)
		} else {
			break
		}
	}
	// no symbolic shifts inside arms when shift forking is on
	arm := &mergeArm{join: join, cond: c}
	for k := 0; k < 2; k++ {
		from := b
		if arms[k] != nil {
			from = arms[k]
			for _, in := range arms[k].Instrs[:len(arms[k].Instrs)-1] {
				if e.visitInstr(fr, in) != kNext {
					panic("merge: impure arm")
				}
			}
		}
		pi := -1
		for i, p := range join.Preds {
			if p == from {
				pi = i
			}
		}
		arm.vals[k] = map[*ssa.Phi]Value{}
		for _, p := range phis {
			arm.vals[k][p] = fr.get(p.Edges[pi])
		}
	}
	// all-or-nothing: scalar merge only
	for _, p := range phis {
		_, ok1 := arm.vals[0][p].(*term.T)
		_, ok2 := arm.vals[1][p].(*term.T)
		if !ok1 || !ok2 {
			return false
		}
	}
	fr.mergeCond = append(fr.mergeCond, arm)
	fr.prev, fr.block = b, join
	e.res.Merges++
	return true
}

func (e *Engine) visitInstr(fr *frame, instr ssa.Instruction) continuation {
	switch instr := instr.(type) {
	case *ssa.DebugRef:
	case *ssa.UnOp:
		fr.env[instr] = e.unop(instr, fr.get(instr.X))
	case *ssa.BinOp:
		fr.env[instr] = e.binop(instr.Op, instr.X.Type(), fr.get(instr.X), fr.get(instr.Y), instr.Pos())
	case *ssa.Call:
		fn, args := e.prepareCall(fr, &instr.Call)
		fr.env[instr] = e.call(fr, instr.Pos(), fn, args)
	case *ssa.ChangeInterface:
		fr.env[instr] = fr.get(instr.X)
	case *ssa.ChangeType:
		fr.env[instr] = fr.get(instr.X)
	case *ssa.Convert:
		fr.env[instr] = e.conv(instr.Type(), instr.X.Type(), fr.get(instr.X), instr.Pos())
	case *ssa.SliceToArrayPointer:
		panic(unsupported("slice to array pointer"))
	case *ssa.MakeInterface:
		fr.env[instr] = Iface{T: instr.X.Type(), V: fr.get(instr.X)}
	case *ssa.Extract:
		fr.env[instr] = fr.get(instr.Tuple).(Tuple)[instr.Index]
	case *ssa.Slice:
		ix := func(v ssa.Value) Value {
			if v == nil {
				return nil
			}
			return idx64(fr.get(v), v.Type())
		}
		fr.env[instr] = e.sliceOp(fr.get(instr.X), ix(instr.Low), ix(instr.High), ix(instr.Max), instr.X.Type())
	case *ssa.Return:
		switch len(instr.Results) {
		case 0:
		case 1:
			fr.result = fr.get(instr.Results[0])
		default:
			res := make(Tuple, len(instr.Results))
			for i, r := range instr.Results {
				res[i] = fr.get(r)
			}
			fr.result = res
		}
		fr.block = nil
		return kReturn
	case *ssa.RunDefers:
		fr.runDefers()
	case *ssa.Panic:
		panic(targetPanic{fr.get(instr.X)})
	case *ssa.Store:
		e.store(fr.get(instr.Addr), fr.get(instr.Val))
	case *ssa.If:
		c := asT(fr.get(instr.Cond))
		if !c.IsConst() && e.tryMerge(fr, instr, c) {
			return kJump
		}
		succ := 1
		if e.branch(c, "if") {
			succ = 0
		}
		fr.prev, fr.block = fr.block, fr.block.Succs[succ]
		return kJump
	case *ssa.Jump:
		fr.prev, fr.block = fr.block, fr.block.Succs[0]
		return kJump
	case *ssa.Defer:
		fn, args := e.prepareCall(fr, &instr.Call)
		fr.defers = append(fr.defers, &deferred{fn: fn, args: args, pos: instr.Pos()})
	case *ssa.Go:
		fn, args := e.prepareCall(fr, &instr.Call)
		if len(e.tasks) >= maxTasksPerJoin {
			// unwinding bound on goroutine-spawning loops: the path is abandoned and
			// reported, never counted as explored
			e.note(fmt.Sprintf("unwind-bound: more than %d goroutines spawned before a join", maxTasksPerJoin))
			panic(pathEnd{"unwind-bound"})
		}
		e.tasks = append(e.tasks, &task{fn: fn, args: args, pos: instr.Pos()})
	case *ssa.MakeChan:
		fr.env[instr] = &Chan{}
	case *ssa.Send, *ssa.Select:
		panic(unsupported("channel operation"))
	case *ssa.Alloc:
		cell := new(Value)
		*cell = zero(deref(instr.Type()))
		fr.env[instr] = cell
	case *ssa.MakeSlice:
		lt, ct := idx64(fr.get(instr.Len), instr.Len.Type()), idx64(fr.get(instr.Cap), instr.Cap.Type())
		elem := instr.Type().Underlying().(*types.Slice).Elem()
		n, c := e.makeLen(lt, "make-len"), e.makeLen(ct, "make-cap")
		if n < 0 || c < n {
			e.goPanic(fmt.Sprintf("runtime error: makeslice: len out of range (%d)", n))
		}
		es := e.sizes.Sizeof(elem)
		if es*int64(c) > 1<<28 || c > 1<<24 {
			e.res.noteAlloc(c, es, e.posStr(instr.Pos()))
			panic(targetPanic{Iface{T: e.runtimeErrT, V: fmt.Sprintf("runtime error: makeslice: huge allocation (%d elements) — treated as out of memory", c)}})
		}
		e.res.noteAlloc(c, es, e.posStr(instr.Pos()))
		s := make([]Value, c)
		for i := range s {
			s[i] = zero(elem)
		}
		fr.env[instr] = s[:n]
	case *ssa.MakeMap:
		fr.env[instr] = newMap()
	case *ssa.Range:
		fr.env[instr] = e.rangeIter(fr.get(instr.X), instr.X.Type())
	case *ssa.Next:
		fr.env[instr] = fr.get(instr.Iter).(Iter).next()
	case *ssa.FieldAddr:
		fr.env[instr] = e.fieldAddr(fr.get(instr.X), instr.Field)
	case *ssa.Field:
		fr.env[instr] = copyVal(fr.get(instr.X).(Struct)[instr.Field])
	case *ssa.IndexAddr:
		name := ""
		if g, ok := instr.X.(*ssa.Global); ok {
			name = g.Name()
		}
		var elem types.Type
		switch t := instr.X.Type().Underlying().(type) {
		case *types.Slice:
			elem = t.Elem()
		case *types.Pointer:
			elem = t.Elem().Underlying().(*types.Array).Elem()
		}
		fr.env[instr] = e.indexAddr(fr.get(instr.X), idx64(fr.get(instr.Index), instr.Index.Type()), elem, name)
	case *ssa.Index:
		x := fr.get(instr.X)
		idx := idx64(fr.get(instr.Index), instr.Index.Type())
		switch x := x.(type) {
		case Array:
			if idx.IsConst() {
				i := idx.SVal()
				if i < 0 || i >= int64(len(x)) {
					e.goPanic("runtime error: index out of range")
				}
				fr.env[instr] = copyVal(x[i])
			} else {
				p := e.indexAddr(append([]Value(nil), x...), idx, instr.Type(), "")
				fr.env[instr] = e.load(p, instr.Type())
			}
		case string, *SymStr:
			bs := strBytes(x)
			i, _ := e.checkIndex(idx, len(bs))
			fr.env[instr] = bs[i]
		default:
			panic(unsupported(fmt.Sprintf("Index on %T", x)))
		}
	case *ssa.Lookup:
		x := fr.get(instr.X)
		switch x := x.(type) {
		case *Map:
			mt := instr.X.Type().Underlying().(*types.Map)
			v, ok := e.mapLookup(x, fr.get(instr.Index), mt.Elem())
			if instr.CommaOk {
				fr.env[instr] = Tuple{v, cbool(ok)}
			} else {
				fr.env[instr] = v
			}
		case string, *SymStr:
			bs := strBytes(x)
			i, _ := e.checkIndex(idx64(fr.get(instr.Index), instr.Index.Type()), len(bs))
			fr.env[instr] = bs[i]
		default:
			panic(unsupported(fmt.Sprintf("Lookup on %T", x)))
		}
	case *ssa.MapUpdate:
		m, _ := fr.get(instr.Map).(*Map)
		e.mapUpdate(m, fr.get(instr.Key), fr.get(instr.Value))
	case *ssa.TypeAssert:
		fr.env[instr] = e.typeAssert(instr, fr.get(instr.X).(Iface))
	case *ssa.MakeClosure:
		var bindings []Value
		for _, b := range instr.Bindings {
			bindings = append(bindings, fr.get(b))
		}
		fr.env[instr] = &Closure{instr.Fn.(*ssa.Function), bindings}
	default:
		panic(unsupported(fmt.Sprintf("instruction %T", instr)))
	}
	return kNext
}

// idx64 widens an index / length operand to 64 bits according to its Go type.
func idx64(v Value, t types.Type) *term.T {
	x := asT(v)
	if x.IsInt() || x.W == 64 {
		return x
	}
	if isSigned(t) {
		return term.SExt(x, 64)
	}
	return term.ZExt(x, 64)
}

func (e *Engine) makeLen(t *term.T, what string) int {
	if t.IsConst() {
		return int(t.SVal())
	}
	// negative or huge symbolic lengths: decide the panic case first
	var bad *term.T
	if t.IsInt() {
		bad = term.BOr(term.ILt(t, term.IntConst(0)), term.ILt(term.IntConst(1<<24), t))
	} else {
		bad = term.BOr(term.Slt(t, term.Const(t.W, 0)), term.Slt(term.Const(t.W, 1<<24), t))
	}
	if e.branch(bad, what) {
		e.goPanic("runtime error: makeslice: len out of range [symbolic]")
	}
	v := e.concretize(t, what)
	return int(int64(v))
}

func (e *Engine) fieldAddr(x Value, field int) Value {
	switch p := x.(type) {
	case *Value:
		if p == nil {
			e.goPanic("runtime error: invalid memory address or nil pointer dereference")
		}
		switch s := (*p).(type) {
		case Struct:
			return &s[field]
		default:
			panic(unsupported(fmt.Sprintf("FieldAddr on pointer to %T", *p)))
		}
	case *TableRef:
		return &TableRef{Kind: p.Kind, C: p.C, Field: field}
	}
	panic(unsupported(fmt.Sprintf("FieldAddr on %T", x)))
}

func (e *Engine) typeAssert(instr *ssa.TypeAssert, itf Iface) Value {
	var v Value
	ok := false
	if itf.T != nil {
		if it, isI := instr.AssertedType.Underlying().(*types.Interface); isI {
			if types.Implements(itf.T, it) {
				v, ok = itf, true
			}
		} else if types.Identical(itf.T, instr.AssertedType) {
			v, ok = copyVal(itf.V), true
		}
	}
	if !ok {
		if !instr.CommaOk {
			e.goPanic(fmt.Sprintf("interface conversion: interface is %v, not %v", itf.T, instr.AssertedType))
		}
		v = zero(instr.AssertedType)
	}
	if instr.CommaOk {
		return Tuple{v, cbool(ok)}
	}
	return v
}

func (e *Engine) prepareCall(fr *frame, call *ssa.CallCommon) (fn Value, args []Value) {
	v := fr.get(call.Value)
	if call.Method == nil {
		fn = v
	} else {
		recv := v.(Iface)
		if recv.T == nil {
			e.goPanic("runtime error: invalid memory address or nil pointer dereference (method on nil interface)")
		}
		if rt, ok := recv.V.(RType); ok {
			return &rtypeMethod{call.Method.Name()}, []Value{rt}
		}
		f := e.prog.LookupMethod(recv.T, call.Method.Pkg(), call.Method.Name())
		if f == nil {
			panic(unsupported(fmt.Sprintf("method %s not found on %v", call.Method.Name(), recv.T)))
		}
		fn = f
		args = append(args, recv.V)
	}
	for _, a := range call.Args {
		args = append(args, fr.get(a))
	}
	return
}

func (e *Engine) rangeIter(x Value, t types.Type) Iter {
	switch x := x.(type) {
	case *Map:
		mt := t.Underlying().(*types.Map)
		it := &mapIter{m: x, kt: mt.Key(), vt: mt.Elem()}
		if x != nil {
			for i := range x.keys {
				it.order = append(it.order, i)
			}
			it.order = e.permuteMapOrder(it.order)
		} else {
			it.m = newMap()
		}
		return it
	case string:
		return &strIter{s: x}
	case *SymStr:
		return &symStrIter{e: e, s: x}
	}
	panic(unsupported(fmt.Sprintf("range over %T", x)))
}

// permuteMapOrder lets a harness ask for adversarial map iteration order.
func (e *Engine) permuteMapOrder(order []int) []int {
	if e.mapOrder == nil || len(order) < 2 {
		return order
	}
	return e.mapOrder(order)
}

type symStrIter struct {
	e   *Engine
	s   *SymStr
	pos int
}

func (it *symStrIter) next() Value {
	if it.pos >= len(it.s.B) {
		return Tuple{term.False, cint(0), term.Const(32, 0)}
	}
	e := it.e
	p := it.pos
	b := it.s.B[p]
	if b.IsConst() && b.Val < 0x80 || !b.IsConst() && e.branch(term.Ult(b, term.Const(8, 0x80)), "utf8-ascii") {
		it.pos++
		return Tuple{term.True, cint(p), term.ZExt(b, 32)}
	}
	// non-ASCII lead byte: concretise up to 4 bytes and decode natively
	var buf []byte
	for i := p; i < len(it.s.B) && i < p+4; i++ {
		buf = append(buf, byte(e.concretize(it.s.B[i], "utf8-byte")))
		if utf8.FullRune(buf) {
			break
		}
	}
	r, n := utf8.DecodeRune(buf)
	it.pos += n
	return Tuple{term.True, cint(p), term.Const(32, uint64(r))}
}
