package sym

import (
	"crypto/md5"
	"fmt"
	"go/token"
	"go/types"
	"hash/crc32"
	"sort"
	"strings"

	"golang.org/x/tools/go/ssa"

	"verif/engine/term"
)

const rtPkg = "github.com/akalin/gopar/internal/zzverifrt."

type intrinsic func(e *Engine, caller *frame, pos token.Pos, args []Value) Value

var intrinsics map[string]intrinsic

// RType is the value behind reflect.TypeOf.
type RType struct{ T types.Type }

func init() {
	intrinsics = map[string]intrinsic{
		rtPkg + "Byte":    func(e *Engine, _ *frame, _ token.Pos, a []Value) Value { return e.input(a[0], 8) },
		rtPkg + "U16":     func(e *Engine, _ *frame, _ token.Pos, a []Value) Value { return e.input(a[0], 16) },
		rtPkg + "U32":     func(e *Engine, _ *frame, _ token.Pos, a []Value) Value { return e.input(a[0], 32) },
		rtPkg + "U64":     func(e *Engine, _ *frame, _ token.Pos, a []Value) Value { return e.input(a[0], 64) },
		rtPkg + "Int":     func(e *Engine, _ *frame, _ token.Pos, a []Value) Value { return e.input(a[0], 64) },
		rtPkg + "Bool":    func(e *Engine, _ *frame, _ token.Pos, a []Value) Value { return e.input(a[0], 0) },
		rtPkg + "MathInt": func(e *Engine, _ *frame, _ token.Pos, a []Value) Value { return e.input(a[0], -1) },
		rtPkg + "Bytes": func(e *Engine, _ *frame, _ token.Pos, a []Value) Value {
			name := a[0].(string)
			n := int(e.concretize(asT(a[1]), "Bytes-len"))
			out := make([]Value, n)
			for i := range out {
				out[i] = e.input(fmt.Sprintf("%s_%d", name, i), 8)
			}
			return out
		},
		rtPkg + "Assume": func(e *Engine, _ *frame, _ token.Pos, a []Value) Value {
			e.assume(asT(a[0]))
			return nil
		},
		rtPkg + "Assert": func(e *Engine, _ *frame, pos token.Pos, a []Value) Value {
			e.obligation(asT(a[0]), a[1].(string), false)
			return nil
		},
		rtPkg + "Reach": func(e *Engine, _ *frame, _ token.Pos, a []Value) Value {
			e.res.Reached[a[0].(string)]++
			return nil
		},
		rtPkg + "Choice": func(e *Engine, _ *frame, _ token.Pos, a []Value) Value {
			v := e.input(a[0], 64).(*term.T)
			n := asT(a[1])
			if n.IsConst() && v.Op == term.OpVar && !e.pcVars[v.ID] && n.Val > 0 && n.Val < 4096 {
				// fresh variable constrained only by v < n: every value is feasible
				var val uint64
				if e.replaying() {
					val = e.prefix[len(e.decisions)]
				} else {
					for k := n.Val - 1; k >= 1; k-- {
						e.pending = append(e.pending, append(append([]uint64(nil), e.decisions...), k))
					}
				}
				e.decisions = append(e.decisions, val)
				e.assertPC(term.Eq(v, term.Const(64, val)))
				return cint(int(val))
			}
			e.assume(term.Ult(v, n))
			lim := 70
			if n.IsConst() {
				lim = int(n.Val)
			}
			return cint(int(e.concretizeMax(v, "choice "+a[0].(string), lim)))
		},
		rtPkg + "Concrete": func(e *Engine, _ *frame, _ token.Pos, a []Value) Value {
			t := asT(a[0])
			v := e.concretize(t, "Concrete")
			if t.IsInt() {
				return term.IntConst(int64(v))
			}
			return term.Const(t.W, v)
		},
		rtPkg + "Option": func(e *Engine, _ *frame, _ token.Pos, a []Value) Value {
			e.setOption(a[0].(string))
			return nil
		},
		rtPkg + "Replace": func(e *Engine, _ *frame, _ token.Pos, a []Value) Value {
			e.replaced[a[0].(string)] = a[1].(Iface).V
			return nil
		},
		rtPkg + "CutLoop": func(e *Engine, _ *frame, _ token.Pos, a []Value) Value {
			name := a[0].(string)
			e.cuts[name] = &cutSpec{fnName: name, loop: int(asT(a[1]).Val), inv: a[2].(Iface).V}
			return nil
		},
		rtPkg + "GFMul": func(e *Engine, _ *frame, _ token.Pos, a []Value) Value {
			return term.GFMul(asT(a[0]), asT(a[1]))
		},
		rtPkg + "AbstractBytes": func(e *Engine, _ *frame, _ token.Pos, a []Value) Value {
			name := a[0].(string)
			n := e.input(name+"_len", -1).(*term.T)
			e.assume(term.ILe(term.IntConst(0), n))
			e.assume(term.ILe(n, term.IntConst(1<<62)))
			return AbsSlice{ID: name, Off: term.IntConst(0), Len: n, Cap: n}
		},
		rtPkg + "AbstractBytesLen": func(e *Engine, _ *frame, _ token.Pos, a []Value) Value {
			n := asT(a[1])
			return AbsSlice{ID: a[0].(string), Off: term.IntConst(0), Len: n, Cap: n}
		},
		rtPkg + "RaceFree": func(e *Engine, _ *frame, _ token.Pos, a []Value) Value {
			e.checkRaceFree(a[0].(string))
			return nil
		},
		rtPkg + "RunLoopBody": func(e *Engine, fr *frame, pos token.Pos, a []Value) Value {
			e.runLoopBody(fr, a[0].(string), int(asT(a[1]).Val), a[2].(Iface).V)
			return nil
		},
		rtPkg + "KernelCoverage": func(e *Engine, _ *frame, _ token.Pos, a []Value) Value {
			e.kernelCoverage(asT(a[0]))
			return nil
		},
		rtPkg + "OneOf": func(e *Engine, _ *frame, _ token.Pos, a []Value) Value {
			b := asT(a[0])
			r := term.False
			for _, c := range []byte(a[1].(string)) {
				r = term.BOr(r, term.Eq(b, term.Const(8, uint64(c))))
			}
			return r
		},
		rtPkg + "ExitCode": func(e *Engine, fr *frame, pos token.Pos, a []Value) (res Value) {
			defer func() {
				if r := recover(); r != nil {
					if ex, ok := r.(exitPanic); ok {
						res = term.SExt(ex.code, 64)
						if ex.code.W == 64 {
							res = ex.code
						}
						return
					}
					panic(r)
				}
			}()
			e.call(fr, pos, a[0], nil)
			// returning from main is exit status 0
			return term.Const(64, 0)
		},
		rtPkg + "SetDir": func(e *Engine, _ *frame, _ token.Pos, a []Value) Value {
			if e.dirs == nil {
				e.dirs = map[string][]Value{}
			}
			e.dirs[a[0].(string)] = e.sliceElems(a[1])
			return nil
		},
		rtPkg + "TaskRangesPartition": func(e *Engine, _ *frame, _ token.Pos, a []Value) Value {
			e.taskRangesPartition(asT(a[0]))
			return nil
		},
		rtPkg + "TableLoop": func(e *Engine, _ *frame, _ token.Pos, a []Value) Value {
			e.tableLoop = &tableLoopSpec{varName: a[0].(string), lo: int64(asT(a[1]).Val), hi: int64(asT(a[2]).Val), storesPerIter: int(asT(a[3]).Val), stores: map[string]*term.T{}}
			return nil
		},
		rtPkg + "SetCwd": func(e *Engine, _ *frame, _ token.Pos, a []Value) Value {
			e.cwd = a[0].(string)
			return nil
		},
		rtPkg + "GuardsIntact": func(e *Engine, _ *frame, _ token.Pos, a []Value) Value { return term.True },
		rtPkg + "IsSymbolic":   func(e *Engine, _ *frame, _ token.Pos, a []Value) Value { return term.True },
		rtPkg + "Register":     func(e *Engine, _ *frame, _ token.Pos, a []Value) Value { return nil },
		rtPkg + "MapOrderAdversarial": func(e *Engine, _ *frame, _ token.Pos, a []Value) Value {
			tag := a[0].(string)
			e.mapOrder = func(order []int) []int {
				// symbolic permutation by repeated choice
				out := make([]int, 0, len(order))
				rest := append([]int(nil), order...)
				for len(rest) > 1 {
					e.mapOrderN++
					v := e.input(fmt.Sprintf("maporder_%s_%d", tag, e.mapOrderN), 64).(*term.T)
					e.assume(term.Ult(v, cint(len(rest))))
					k := int(e.concretize(v, "map-order"))
					out = append(out, rest[k])
					rest = append(rest[:k], rest[k+1:]...)
				}
				return append(out, rest...)
			}
			return nil
		},
		rtPkg + "MapOrderDefault": func(e *Engine, _ *frame, _ token.Pos, a []Value) Value {
			e.mapOrder = nil
			return nil
		},

		"crypto/md5.Sum":          md5Sum,
		"hash/crc32.ChecksumIEEE": crcIEEE,
		"reflect.TypeOf": func(e *Engine, _ *frame, _ token.Pos, a []Value) Value {
			return Iface{T: rtypeMarker, V: RType{a[0].(Iface).T}}
		},
		"internal/reflectlite.TypeOf": func(e *Engine, _ *frame, _ token.Pos, a []Value) Value {
			return Iface{T: rtypeMarker, V: RType{a[0].(Iface).T}}
		},
		"reflect.DeepEqual":  func(e *Engine, _ *frame, _ token.Pos, a []Value) Value { return e.deepEqual(a[0], a[1]) },
		"sort.Slice":         sortSlice,
		"sort.SliceStable":   sortSlice,
		"sort.SliceIsSorted": sortSliceIsSorted,
		"sort.Ints":          sortInts,
		"sort.Strings":       sortStrings,
		"(*sync.WaitGroup).Add": func(e *Engine, _ *frame, _ token.Pos, a []Value) Value {
			d := asT(a[1])
			if d.IsConst() {
				e.wgAdd += int(d.SVal())
			} else {
				if e.wgSym == nil {
					e.wgSym = term.IntConst(0)
				}
				e.wgSym = term.IAdd(e.wgSym, toInt(d, types.Typ[types.Int]))
			}
			return nil
		},
		"(*sync.WaitGroup).Done":  func(e *Engine, _ *frame, _ token.Pos, a []Value) Value { e.wgAdd--; return nil },
		"(*sync.WaitGroup).Wait":  wgWait,
		"os.IsNotExist":           osIsNotExist,
		"os.Lstat":                osStat,
		"os.Stat":                 osStat,
		"os.Open":                 osOpen,
		"(*os.File).Readdirnames": osReaddirnames,
		"(*os.File).Close":        func(e *Engine, _ *frame, _ token.Pos, a []Value) Value { return Iface{} },
		"os.Exit":                 func(e *Engine, _ *frame, _ token.Pos, a []Value) Value { panic(exitPanic{asT(a[0])}) },
		"os.Getwd":                func(e *Engine, _ *frame, _ token.Pos, a []Value) Value { return Tuple{e.cwd, Iface{}} },
		// environment: an arbitrary processor count 1..256, one value per run
		"runtime.GOMAXPROCS": func(e *Engine, _ *frame, _ token.Pos, a []Value) Value {
			if e.notes == nil || e.initing {
				return cint(4) // package initialisation runs once, concretely
			}
			if e.gomaxprocs == nil {
				e.note("model:GOMAXPROCS symbolic 1..256")
				if e.opt.IntMode {
					v := e.input("env_gomaxprocs", -1).(*term.T)
					e.assume(term.ILe(term.IntConst(1), v))
					e.assume(term.ILe(v, term.IntConst(256)))
					e.gomaxprocs = v
				} else {
					v := e.input("env_gomaxprocs", 64).(*term.T)
					e.assume(term.Ule(term.Const(64, 1), v))
					e.assume(term.Ule(v, term.Const(64, 256)))
					e.gomaxprocs = v
				}
			}
			return e.gomaxprocs
		},
		"fmt.Sprintf": fmtSprintf,
		"fmt.Errorf":  fmtErrorf,
		"fmt.Printf":  func(e *Engine, _ *frame, _ token.Pos, a []Value) Value { return Tuple{cint(0), Iface{}} },
		"fmt.Println": func(e *Engine, _ *frame, _ token.Pos, a []Value) Value { return Tuple{cint(0), Iface{}} },
		"fmt.Print":   func(e *Engine, _ *frame, _ token.Pos, a []Value) Value { return Tuple{cint(0), Iface{}} },
		"fmt.Fprintf": func(e *Engine, _ *frame, _ token.Pos, a []Value) Value { return Tuple{cint(0), Iface{}} },
		"fmt.Sprint":  fmtSprint,
		"fmt.Sprintln": func(e *Engine, fr *frame, p token.Pos, a []Value) Value {
			return fmtSprint(e, fr, p, a).(string) + "\n"
		},
		"fmt.Fprintln":          func(e *Engine, _ *frame, _ token.Pos, a []Value) Value { return Tuple{cint(0), Iface{}} },
		"fmt.Fprint":            func(e *Engine, _ *frame, _ token.Pos, a []Value) Value { return Tuple{cint(0), Iface{}} },
		"encoding/binary.Read":  binaryRead,
		"encoding/binary.Write": binaryWrite,
		"path/filepath.Abs":     filepathAbs,
		"internal/bytealg.CountString": func(e *Engine, _ *frame, _ token.Pos, a []Value) Value {
			n := 0
			c := asT(a[1])
			for _, b := range strBytes(a[0]) {
				if e.branch(term.Eq(b, c), "count-byte") {
					n++
				}
			}
			return cint(n)
		},
		"internal/bytealg.Count": func(e *Engine, _ *frame, _ token.Pos, a []Value) Value {
			n := 0
			c := asT(a[1])
			for _, b := range e.sliceElems(a[0]) {
				if e.branch(term.Eq(asT(b), c), "count-byte") {
					n++
				}
			}
			return cint(n)
		},
		"internal/bytealg.IndexByteString": func(e *Engine, _ *frame, _ token.Pos, a []Value) Value {
			c := asT(a[1])
			for i, b := range strBytes(a[0]) {
				if e.branch(term.Eq(b, c), "index-byte") {
					return cint(i)
				}
			}
			return term.Const(64, ^uint64(0))
		},
		"internal/bytealg.IndexByte": func(e *Engine, _ *frame, _ token.Pos, a []Value) Value {
			c := asT(a[1])
			for i, b := range e.sliceElems(a[0]) {
				if e.branch(term.Eq(asT(b), c), "index-byte") {
					return cint(i)
				}
			}
			return term.Const(64, ^uint64(0))
		},
		"internal/bytealg.Equal": func(e *Engine, _ *frame, _ token.Pos, a []Value) Value {
			x, y := e.sliceElems(a[0]), e.sliceElems(a[1])
			if len(x) != len(y) {
				return term.False
			}
			r := term.True
			for i := range x {
				r = term.BAnd(r, term.Eq(asT(x[i]), asT(y[i])))
			}
			return r
		},
		"internal/bytealg.MakeNoZero": func(e *Engine, _ *frame, _ token.Pos, a []Value) Value {
			n := int(e.concretize(asT(a[0]), "MakeNoZero"))
			out := make([]Value, n)
			for i := range out {
				out[i] = cbyte(0)
			}
			return out
		},
		"internal/bytealg.IndexString": func(e *Engine, _ *frame, _ token.Pos, a []Value) Value {
			s, ok1 := a[0].(string)
			sub, ok2 := a[1].(string)
			if !ok1 || !ok2 {
				panic(unsupported("substring search on symbolic strings"))
			}
			return cint(strings.Index(s, sub))
		},
		"strings.Join": func(e *Engine, _ *frame, _ token.Pos, a []Value) Value {
			elems := e.sliceElems(a[0])
			sep := strBytes(a[1])
			var out []*term.T
			for i, x := range elems {
				if i > 0 {
					out = append(out, sep...)
				}
				out = append(out, strBytes(x)...)
			}
			return mkStr(out)
		},
		"strings.ToLower": func(e *Engine, _ *frame, _ token.Pos, a []Value) Value {
			s, ok := a[0].(string)
			if ok {
				return strings.ToLower(s)
			}
			// symbolic bytes: ASCII only (a byte that can be >= 0x80 is outside the model)
			bs := strBytes(a[0])
			out := make([]*term.T, len(bs))
			for i, b := range bs {
				if !e.branch(term.Ult(b, term.Const(8, 0x80)), "ascii") {
					panic(unsupported("strings.ToLower of a symbolic non-ASCII byte"))
				}
				upper := term.BAnd(term.Ule(term.Const(8, 'A'), b), term.Ule(b, term.Const(8, 'Z')))
				out[i] = term.Ite(upper, term.Add(b, term.Const(8, 32)), b)
			}
			return mkStr(out)
		},
		"github.com/akalin/gopar/gf2p16.castTToByteSlice":           castTToByte,
		"github.com/akalin/gopar/gf2p16.castByteToTSlice":           castByteToT,
		"github.com/akalin/gopar/gf2p16.mulByteSliceLEUnsafe":       func(e *Engine, _ *frame, p token.Pos, a []Value) Value { return kernel(e, a, false, false, p) },
		"github.com/akalin/gopar/gf2p16.mulAndAddByteSliceLEUnsafe": func(e *Engine, _ *frame, p token.Pos, a []Value) Value { return kernel(e, a, true, false, p) },
		"github.com/akalin/gopar/gf2p16.mulSliceSSSE3Unsafe":        func(e *Engine, _ *frame, p token.Pos, a []Value) Value { return kernel(e, a, false, true, p) },
		"github.com/akalin/gopar/gf2p16.mulAndAddSliceSSSE3Unsafe":  func(e *Engine, _ *frame, p token.Pos, a []Value) Value { return kernel(e, a, true, true, p) },
		"(github.com/klauspost/cpuid/v2.CPUInfo).Supports":          func(e *Engine, _ *frame, _ token.Pos, a []Value) Value { return e.input("cpu_supports", 0) },
		"(*github.com/klauspost/cpuid/v2.CPUInfo).Supports":         func(e *Engine, _ *frame, _ token.Pos, a []Value) Value { return e.input("cpu_supports", 0) },
	}
}

var rtypeMarker = types.NewNamed(types.NewTypeName(token.NoPos, nil, "verifRType", nil), types.NewStruct(nil, nil), nil)

func (e *Engine) input(namev Value, w int) Value {
	name := namev.(string)
	v := term.Var(name, w)
	e.res.noteVar(v)
	if pin, ok := e.pinned[name]; ok {
		switch w {
		case 0:
			return term.Bool(pin != 0)
		case -1:
			return term.IntConst(int64(pin))
		}
		return term.Const(w, pin)
	}
	return v
}

func (e *Engine) setOption(o string) {
	switch o {
	case "fork-shifts":
		e.opt.ForkShifts = true
	case "int-mode":
		e.opt.IntMode = true
	case "no-merge":
		e.opt.NoMerge = true
	case "minimize-words":
		e.opt.MinimizeWords = true
	case "footprints":
		e.opt.Footprints = true
	case "reverse-tasks":
		e.opt.ReverseTasks = true
	case "forward-tasks":
		e.opt.ReverseTasks = false
	default:
		panic(unsupported("unknown option " + o))
	}
}

// ---- hashing ----

func md5Sum(e *Engine, _ *frame, _ token.Pos, a []Value) Value {
	elems := e.sliceElems(a[0])
	bs := make([]*term.T, len(elems))
	conc := true
	for i, x := range elems {
		bs[i] = asT(x)
		if !bs[i].IsConst() {
			conc = false
		}
	}
	out := make(Array, 16)
	if conc {
		buf := make([]byte, len(bs))
		for i, b := range bs {
			buf[i] = byte(b.Val)
		}
		h := md5.Sum(buf)
		term.NoteConcreteMD5(buf, h)
		for i := range out {
			out[i] = cbyte(h[i])
		}
		return out
	}
	e.note("model:md5-injective")
	for i := range out {
		out[i] = term.MD5Byte(bs, i)
	}
	return out
}

var crcTable []Value

func crcIEEE(e *Engine, _ *frame, _ token.Pos, a []Value) Value {
	if crcTable == nil {
		crcTable = make([]Value, 256)
		for i := range crcTable {
			crcTable[i] = term.Const(32, uint64(crc32.IEEETable[i]))
		}
	}
	crc := term.Const(32, 0xffffffff)
	for _, x := range e.sliceElems(a[0]) {
		b := asT(x)
		idx := term.Xor(term.Extract(crc, 7, 0), b)
		var t *term.T
		if idx.IsConst() {
			t = asT(crcTable[idx.Val])
		} else {
			t = asT(e.symLoad(&SymPtr{Base: crcTable, Idx: idx}))
		}
		crc = term.Xor(t, term.LShr(crc, term.Const(8, 8)))
	}
	return term.Not(crc)
}

// ---- reflect ----

func (e *Engine) deepEqual(a, b Value) *term.T {
	ai, aok := a.(Iface)
	bi, bok := b.(Iface)
	if aok && bok {
		if ai.T == nil || bi.T == nil {
			return cbool(ai.T == nil && bi.T == nil)
		}
		if !types.Identical(ai.T, bi.T) {
			return term.False
		}
		return e.deepEq(ai.V, bi.V)
	}
	return e.deepEq(a, b)
}

func (e *Engine) deepEq(a, b Value) *term.T {
	switch x := a.(type) {
	case []Value:
		y, ok := b.([]Value)
		if !ok {
			return term.False
		}
		if (x == nil) != (y == nil) || len(x) != len(y) {
			return term.False
		}
		r := term.True
		for i := range x {
			r = term.BAnd(r, e.deepEq(x[i], y[i]))
		}
		return r
	case Struct:
		y := b.(Struct)
		r := term.True
		for i := range x {
			r = term.BAnd(r, e.deepEq(x[i], y[i]))
		}
		return r
	case Array:
		y := b.(Array)
		r := term.True
		for i := range x {
			r = term.BAnd(r, e.deepEq(x[i], y[i]))
		}
		return r
	case *Value:
		y, ok := b.(*Value)
		if !ok {
			return term.False
		}
		if x == nil || y == nil {
			return cbool(x == y)
		}
		if x == y {
			return term.True
		}
		return e.deepEq(*x, *y)
	case Iface:
		return e.deepEqual(a, b)
	case *Map:
		y, _ := b.(*Map)
		if x == nil || y == nil {
			return cbool(x == y)
		}
		if x.length() != y.length() {
			return term.False
		}
		panic(unsupported("DeepEqual on non-empty maps"))
	}
	return e.equalVals(a, b)
}

// ---- sort ----

func lessCall(e *Engine, fr *frame, less Value, i, j int) bool {
	r := asT(e.call(fr, token.NoPos, less, []Value{cint(i), cint(j)}))
	return e.branch(r, "sort-less")
}

func sortSlice(e *Engine, fr *frame, _ token.Pos, a []Value) Value {
	s := a[0].(Iface).V
	n := e.sliceLen(s)
	// insertion sort through the user's less(i, j) on positions
	for i := 1; i < n; i++ {
		for j := i; j > 0 && lessCall(e, fr, a[1], j, j-1); j-- {
			x, y := e.sliceGet(s, j), e.sliceGet(s, j-1)
			e.sliceSet(s, j, y)
			e.sliceSet(s, j-1, x)
		}
	}
	return nil
}

func sortSliceIsSorted(e *Engine, fr *frame, _ token.Pos, a []Value) Value {
	s := a[0].(Iface).V
	n := e.sliceLen(s)
	for i := n - 1; i > 0; i-- {
		if lessCall(e, fr, a[1], i, i-1) {
			return term.False
		}
	}
	return term.True
}

func sortInts(e *Engine, fr *frame, _ token.Pos, a []Value) Value {
	s := a[0]
	n := e.sliceLen(s)
	for i := 1; i < n; i++ {
		for j := i; j > 0; j-- {
			x, y := asT(e.sliceGet(s, j)), asT(e.sliceGet(s, j-1))
			if !e.branch(term.Slt(x, y), "sort-ints") {
				break
			}
			e.sliceSet(s, j, y)
			e.sliceSet(s, j-1, x)
		}
	}
	return nil
}

func sortStrings(e *Engine, fr *frame, _ token.Pos, a []Value) Value {
	s := a[0]
	n := e.sliceLen(s)
	for i := 1; i < n; i++ {
		for j := i; j > 0; j-- {
			x, y := e.sliceGet(s, j), e.sliceGet(s, j-1)
			lt := asT(e.stringBinop(token.LSS, x, y))
			if !e.branch(lt, "sort-strings") {
				break
			}
			e.sliceSet(s, j, y)
			e.sliceSet(s, j-1, x)
		}
	}
	return nil
}

// ---- goroutines ----

func wgWait(e *Engine, fr *frame, pos token.Pos, a []Value) Value {
	e.runTasks(fr)
	return nil
}

func (e *Engine) runTasks(fr *frame) {
	tasks := e.tasks
	e.tasks = nil
	if len(tasks) == 0 {
		return
	}
	e.note(fmt.Sprintf("goroutines:%d", len(tasks)))
	order := make([]int, len(tasks))
	for i := range order {
		order[i] = i
		if e.opt.ReverseTasks {
			order[i] = len(tasks) - 1 - i
		}
	}
	e.foot = map[int]*footprint{}
	e.lastTaskCount = len(tasks)
	for _, i := range order {
		e.curTask = i
		e.call(fr, tasks[i].pos, tasks[i].fn, tasks[i].args)
	}
	e.curTask = -1
	if e.wgSym != nil {
		e.obligation(term.Eq(term.IAdd(e.wgSym, term.IntConst(int64(e.wgAdd))), term.IntConst(0)), "waitgroup-balance: Add count equals the number of workers that called Done", false)
		e.wgSym, e.wgAdd = nil, 0
	} else if e.wgAdd != 0 {
		e.obligation(term.False, fmt.Sprintf("waitgroup-balance (counter %d after all tasks finished)", e.wgAdd), false)
	}
}

// checkRaceFree asserts that the write set of every task of the last
// fork/join is disjoint from the read and write sets of every other task.
func (e *Engine) checkRaceFree(label string) {
	ok := true
	detail := ""
	n := e.lastTaskCount
	for i := 0; i < n && ok; i++ {
		fi := e.foot[i]
		if fi == nil {
			continue
		}
		for j := 0; j < n && ok; j++ {
			if i == j || e.foot[j] == nil {
				continue
			}
			for p := range fi.writes {
				if e.foot[j].writes[p] || e.foot[j].reads[p] {
					ok = false
					detail = fmt.Sprintf("task %d writes a cell that task %d accesses", i, j)
					break
				}
			}
		}
	}
	e.res.TasksChecked += n
	e.obligation(cbool(ok), label+" "+detail, false)
}

// ---- os ----

func osIsNotExist(e *Engine, _ *frame, _ token.Pos, a []Value) Value {
	err := a[0].(Iface)
	for depth := 0; depth < 4 && err.T != nil; depth++ {
		ts := err.T.String()
		if strings.HasSuffix(ts, "zzNotExistError") {
			return term.True
		}
		for _, pn := range []string{"io/fs", "internal/oserror", "os"} {
			if pkg := e.prog.ImportedPackage(pn); pkg != nil {
				if g := pkg.Var("ErrNotExist"); g != nil {
					if want, ok := (*e.global(g)).(Iface); ok && want.T != nil && e.equalVals(err, want).IsTrue() {
						return term.True
					}
				}
			}
		}
		// *fs.PathError{Op, Path, Err}
		if strings.HasSuffix(ts, "fs.PathError") || strings.HasSuffix(ts, "os.PathError") {
			if p, ok := err.V.(*Value); ok && p != nil {
				if s, ok := (*p).(Struct); ok && len(s) == 3 {
					err, _ = s[2].(Iface)
					continue
				}
			}
		}
		break
	}
	return term.False
}

// ---- fmt ----

func nativeArg(v Value) (interface{}, bool) {
	switch x := v.(type) {
	case Iface:
		if x.T == nil {
			return nil, true
		}
		if t, ok := x.V.(*term.T); ok {
			if !t.IsConst() {
				return nil, false
			}
			if t.IsBool() {
				return t.Val != 0, true
			}
			if isSigned(x.T) {
				return t.SVal(), true
			}
			return t.Val, true
		}
		if s, ok := x.V.(string); ok {
			return s, true
		}
		if a, ok := x.V.(Array); ok {
			buf := make([]byte, len(a))
			for i, b := range a {
				t, ok := b.(*term.T)
				if !ok || !t.IsConst() || t.W != 8 {
					return nil, false
				}
				buf[i] = byte(t.Val)
			}
			return buf, true
		}
		if s, ok := x.V.([]Value); ok {
			buf := make([]byte, len(s))
			for i, b := range s {
				t, ok := b.(*term.T)
				if !ok || !t.IsConst() || t.W != 8 {
					return fmt.Sprintf("<%v>", x.T), true
				}
				buf[i] = byte(t.Val)
			}
			return buf, true
		}
		// error values: use their message when it is a plain errorString
		if p, ok := x.V.(*Value); ok && p != nil {
			if st, ok := (*p).(Struct); ok && len(st) == 1 {
				if s, ok := st[0].(string); ok {
					return s, true
				}
			}
		}
		return fmt.Sprintf("<%v>", x.T), true
	}
	return nil, false
}

func formatArgs(e *Engine, format string, args Value) (string, bool) {
	var native []interface{}
	for _, a := range e.sliceElems(args) {
		n, ok := nativeArg(a)
		if !ok {
			return "<formatted symbolic data>", false
		}
		native = append(native, n)
	}
	return fmt.Sprintf(format, native...), true
}

func fmtSprintf(e *Engine, _ *frame, _ token.Pos, a []Value) Value {
	f, ok := a[0].(string)
	if !ok {
		return "<formatted symbolic data>"
	}
	s, _ := formatArgs(e, f, a[1])
	return s
}

func fmtSprint(e *Engine, _ *frame, _ token.Pos, a []Value) Value {
	var parts []string
	for _, x := range e.sliceElems(a[0]) {
		n, ok := nativeArg(x)
		if !ok {
			return "<formatted symbolic data>"
		}
		parts = append(parts, fmt.Sprint(n))
	}
	return strings.Join(parts, " ")
}

func fmtErrorf(e *Engine, fr *frame, pos token.Pos, a []Value) Value {
	s := fmtSprintf(e, fr, pos, a)
	return e.newError(fr, s.(string))
}

func (e *Engine) newError(fr *frame, msg string) Value {
	fn := e.lookupFunc("errors", "New")
	return e.call(fr, token.NoPos, fn, []Value{msg})
}

func (e *Engine) lookupFunc(pkg, name string) *ssa.Function {
	p := e.prog.ImportedPackage(pkg)
	if p == nil {
		panic(unsupported("package not loaded: " + pkg))
	}
	f := p.Func(name)
	if f == nil {
		panic(unsupported("function not found: " + pkg + "." + name))
	}
	return f
}

// ---- filepath.Abs ----

func filepathAbs(e *Engine, fr *frame, pos token.Pos, a []Value) Value {
	isAbs := e.call(fr, pos, e.lookupFunc("path/filepath", "IsAbs"), []Value{a[0]})
	if e.branch(asT(isAbs), "abs") {
		return Tuple{e.call(fr, pos, e.lookupFunc("path/filepath", "Clean"), []Value{a[0]}), Iface{}}
	}
	if e.cwd == "" {
		panic(unsupported("filepath.Abs of a relative path without zzverifrt.SetCwd"))
	}
	j := e.call(fr, pos, e.lookupFunc("path/filepath", "Join"), []Value{[]Value{e.cwd, a[0]}})
	return Tuple{j, Iface{}}
}

// ---- gf2p16 unsafe casts and assembly kernel contracts ----

func castTToByte(e *Engine, _ *frame, _ token.Pos, a []Value) Value {
	e.note("model:unsafe-cast-view")
	switch s := a[0].(type) {
	case []Value:
		if s == nil {
			return []Value(nil)
		}
		return ViewSlice{Base: s[:cap(s)], Off: 0, Len: 2 * len(s), Cap: 2 * cap(s)}
	case WordView:
		b := s.Base[s.Off : s.Off+2*s.Cap]
		return b[: 2*s.Len : 2*s.Cap]
	case nil:
		return []Value(nil)
	}
	panic(unsupported(fmt.Sprintf("castTToByteSlice of %T", a[0])))
}

func castByteToT(e *Engine, _ *frame, _ token.Pos, a []Value) Value {
	e.note("model:unsafe-cast-view")
	switch s := a[0].(type) {
	case []Value:
		if s == nil {
			return []Value(nil)
		}
		return WordView{Base: s[:cap(s)], Off: 0, Len: len(s) / 2, Cap: cap(s) / 2}
	case ViewSlice:
		if s.Off%2 != 0 {
			panic(unsupported("misaligned byte view cast back to words"))
		}
		b := s.Base[s.Off/2 : s.Off/2+s.Cap/2]
		return b[: s.Len/2 : s.Cap/2]
	case nil:
		return []Value(nil)
	}
	panic(unsupported(fmt.Sprintf("castByteToTSlice of %T", a[0])))
}

// kernel is the contract of the four assembly kernels (discharged by the
// asmsym checks of C09): for every 16-bit little-endian word i covered,
// out[i] (^)= c * in[i]; nothing else is written.
func kernel(e *Engine, a []Value, add, simd bool, pos token.Pos) Value {
	ref, ok := a[0].(*TableRef)
	if !ok {
		panic(unsupported(fmt.Sprintf("kernel called with table pointer %T", a[0])))
	}
	want := "mulTable"
	if simd {
		want = "mulTable64"
	}
	if ref.Kind != want || ref.Field != -1 {
		e.obligation(term.False, "kernel called with the wrong table", false)
	}
	e.note("contract:asm-kernel")
	if !ref.C.IsConst() {
		if v, ok := e.uniqueValue(ref.C); ok {
			ref = &TableRef{Kind: ref.Kind, C: term.Const(16, v), Field: ref.Field}
		}
	}
	name := "scalar"
	if simd {
		name = "ssse3"
	}
	in, out := a[1], a[2]
	if ai, ok := in.(AbsSlice); ok {
		ao, ok := out.(AbsSlice)
		if !ok {
			panic(unsupported("kernel: abstract in with concrete out"))
		}
		e.obligation(term.Eq(ai.Len, ao.Len), "asm-pre("+name+"): len(in) == len(out)", true)
		if simd {
			e.obligation(term.ILe(term.IntConst(32), ai.Len), "asm-pre(ssse3): len >= 32", true)
		} else {
			e.obligation(term.Eq(term.IMod(ai.Len, term.IntConst(2)), term.IntConst(0)), "asm-pre(scalar): len even", true)
			e.obligation(term.ILt(term.IntConst(0), ai.Len), "asm-pre(scalar): len > 0", true)
		}
		e.res.KernelCalls = append(e.res.KernelCalls, fmt.Sprintf("%s in=%s[%s:+%s] out=%s[%s:+%s]", name, ai.ID, ai.Off, ai.Len, ao.ID, ao.Off, ao.Len))
		e.absKernel = append(e.absKernel, absKernelCall{simd: simd, in: ai, out: ao, task: e.curTask})
		return nil
	}
	n := e.sliceLen(in)
	no := e.sliceLen(out)
	e.obligation(cbool(n == no), "asm-pre("+name+"): len(in) == len(out)", true)
	if simd {
		e.obligation(cbool(n >= 32), "asm-pre(ssse3): len >= 32", true)
		n = n - n%32
	} else {
		e.obligation(cbool(n%2 == 0), "asm-pre(scalar): len even", true)
		e.obligation(cbool(n > 0), "asm-pre(scalar): len > 0", true)
		n = n - n%2
	}
	if no < n {
		n = no - no%2
	}
	// read all inputs first (in and out may be the same buffer)
	words := make([]*term.T, n/2)
	for i := range words {
		lo := asT(e.sliceGet(in, 2*i))
		hi := asT(e.sliceGet(in, 2*i+1))
		words[i] = term.Concat(hi, lo)
	}
	for i, w := range words {
		p := term.GFMul(ref.C, w)
		if add {
			lo := asT(e.sliceGet(out, 2*i))
			hi := asT(e.sliceGet(out, 2*i+1))
			p = term.Xor(p, term.Concat(hi, lo))
		}
		e.sliceSet(out, 2*i, term.Extract(p, 7, 0))
		e.sliceSet(out, 2*i+1, term.Extract(p, 15, 8))
	}
	return nil
}

type absKernelCall struct {
	simd    bool
	in, out AbsSlice
	task    int
}

// taskRangesPartition: the byte ranges on which the workers of the last
// fork/join called the kernels are consecutive, non-empty and cover [0, total).
func (e *Engine) taskRangesPartition(total *term.T) {
	total = toInt(total, types.Typ[types.Int])
	type rng struct{ off, end *term.T }
	byTask := map[int]*rng{}
	var order []int
	for _, k := range e.absKernel {
		off := k.out.Off
		end := term.IAdd(k.out.Off, k.out.Len)
		r := byTask[k.task]
		if r == nil {
			byTask[k.task] = &rng{off, end}
			order = append(order, k.task)
			continue
		}
		// several kernel calls of one worker (SIMD part + tail, several matrix entries): hull
		r.off = term.Ite(term.ILt(off, r.off), off, r.off)
		r.end = term.Ite(term.ILt(r.end, end), end, r.end)
		e.obligation(term.Eq(k.in.Off, k.out.Off), "worker uses the same range of input and output", false)
	}
	sort.Ints(order)
	cur := term.IntConst(0)
	for _, t := range order {
		r := byTask[t]
		e.obligation(term.Eq(r.off, cur), "worker ranges are consecutive (each starts where the previous one ends)", false)
		e.obligation(term.ILt(r.off, r.end), "worker range is non-empty", false)
		cur = r.end
	}
	e.obligation(term.Eq(cur, total), "worker ranges cover the whole shard", false)
	e.res.Reached[fmt.Sprintf("workers:%d", len(order))]++
}

// runLoopBody executes one iteration of the n-th loop of fn from an arbitrary
// state of its loop variables (the header phis are havoced); the path ends at
// the back edge or at the loop exit.  Used for table-construction loops.
func (e *Engine) runLoopBody(caller *frame, name string, n int, pre Value) {
	var fn *ssa.Function
	if name == "@gf2p16-table-init" {
		fn = e.tableInit
	} else {
		for f := range ssautilAllFunctions(e.prog) {
			if f.String() == name {
				fn = f
				break
			}
		}
	}
	if fn == nil || fn.Blocks == nil {
		panic(unsupported("RunLoopBody: no such function " + name))
	}
	h := loopHeader(fn, n)
	fr := &frame{e: e, caller: caller, fn: fn, env: map[ssa.Value]Value{}}
	for _, l := range fn.Locals {
		cell := new(Value)
		*cell = zero(deref(l.Type()))
		fr.env[l] = cell
	}
	if len(fn.Params) > 0 || len(fn.FreeVars) > 0 {
		panic(unsupported("RunLoopBody on a function with parameters"))
	}
	for _, in := range h.Instrs {
		p, ok := in.(*ssa.Phi)
		if !ok {
			break
		}
		w := typeWidth(p.Type())
		if w < 0 {
			panic(unsupported("RunLoopBody: non-scalar loop variable " + p.Comment))
		}
		fr.env[p] = e.freshVar("loop_"+p.Comment, w)
	}
	if tl := e.tableLoop; tl != nil {
		inLoop := loopBlocks(h)
		for _, in := range h.Instrs {
			p, ok := in.(*ssa.Phi)
			if !ok || p.Comment != tl.varName {
				continue
			}
			tl.phi = p
			tl.iv = asT(fr.env[p])
			for i, pred := range h.Preds {
				if inLoop[pred] {
					continue
				}
				c, isConst := p.Edges[i].(*ssa.Const)
				starts := isConst && c.Value != nil && c.Int64() == tl.lo
				e.obligation(term.Bool(starts), fmt.Sprintf("table-contract: the table loop starts at index %d", tl.lo), false)
			}
		}
		if tl.phi == nil {
			panic(unsupported("TableLoop: no loop variable named " + tl.varName))
		}
	}
	if !isNilVal(pre) {
		// assumed loop invariant over the loop variables (parameters by name)
		var sig *types.Signature
		switch f := pre.(type) {
		case *ssa.Function:
			sig = f.Signature
		case *Closure:
			sig = f.Fn.Signature
		}
		var args []Value
		for i := 0; i < sig.Params().Len(); i++ {
			var found Value
			for _, in := range h.Instrs {
				if p, ok := in.(*ssa.Phi); ok && p.Comment == sig.Params().At(i).Name() {
					found = fr.env[p]
				}
			}
			if found == nil {
				panic(unsupported("RunLoopBody: invariant parameter matches no loop variable: " + sig.Params().At(i).Name()))
			}
			args = append(args, found)
		}
		e.assume(asT(e.call(caller, token.NoPos, pre, args)))
	}
	e.res.Funcs[name+" (loop body)"]++
	if e.fnByName == nil {
		e.fnByName = map[string]*ssa.Function{}
	}
	e.fnByName[name+" (loop body)"] = fn
	fr.cut = &cutState{header: h, active: true, bodyOnly: true, inLoop: loopBlocks(h)}
	fr.block = h
	fr.skipPhis = true
	for fr.block != nil {
		e.runFrame(fr)
	}
	panic(pathEnd{"loop-exit"})
}

// kernelCoverage checks that the kernel calls recorded on this path
// partition [0, total) of both buffers: an optional SIMD call on the whole
// buffers (it processes 32*floor(len/32) bytes) and an optional scalar call
// on the remaining tail.
func (e *Engine) kernelCoverage(total *term.T) {
	total = toInt(total, types.Typ[types.Int])
	var simd, scalar *absKernelCall
	for i := range e.absKernel {
		k := &e.absKernel[i]
		if k.simd {
			if simd != nil {
				e.obligation(term.False, "dispatch: more than one SIMD kernel call", false)
			}
			simd = k
		} else {
			if scalar != nil {
				e.obligation(term.False, "dispatch: more than one scalar kernel call", false)
			}
			scalar = k
		}
	}
	zero := term.IntConst(0)
	covered := zero
	if simd != nil {
		e.obligation(term.BAnd(term.Eq(simd.in.Off, zero), term.Eq(simd.out.Off, zero)), "dispatch: SIMD kernel starts at offset 0 of both buffers", false)
		e.obligation(term.Eq(simd.in.Len, total), "dispatch: SIMD kernel is given the whole buffer", false)
		covered = term.IMul(term.IntConst(32), term.IDiv(total, term.IntConst(32)))
	}
	if scalar != nil {
		e.obligation(term.BAnd(term.Eq(scalar.in.Off, covered), term.Eq(scalar.out.Off, covered)), "dispatch: scalar kernel starts where the SIMD part ends", false)
		e.obligation(term.Eq(term.IAdd(scalar.in.Off, scalar.in.Len), total), "dispatch: scalar kernel ends at the end of the buffer", false)
		covered = total
	}
	e.obligation(term.Eq(covered, total), "dispatch: every byte of the buffer is covered", false)
	e.res.Reached[fmt.Sprintf("kernels:simd=%v,scalar=%v", simd != nil, scalar != nil)]++
}

// ---- sync / sync/atomic: sequential execution, so plain memory operations ----

func init() {
	load := func(e *Engine, _ *frame, _ token.Pos, a []Value) Value { return e.load(a[0], nil) }
	store := func(e *Engine, _ *frame, _ token.Pos, a []Value) Value { e.store(a[0], a[1]); return nil }
	add := func(e *Engine, _ *frame, _ token.Pos, a []Value) Value {
		v := term.Add(asT(e.load(a[0], nil)), asT(a[1]))
		e.store(a[0], v)
		return v
	}
	cas := func(e *Engine, _ *frame, _ token.Pos, a []Value) Value {
		cur := e.load(a[0], nil)
		if e.branch(e.equalVals(cur, a[1]), "cas") {
			e.store(a[0], a[2])
			return term.True
		}
		return term.False
	}
	swap := func(e *Engine, _ *frame, _ token.Pos, a []Value) Value {
		old := e.load(a[0], nil)
		e.store(a[0], a[1])
		return old
	}
	for _, t := range []string{"Int32", "Int64", "Uint32", "Uint64", "Uintptr", "Pointer"} {
		intrinsics["sync/atomic.Load"+t] = load
		intrinsics["sync/atomic.Store"+t] = store
		intrinsics["sync/atomic.CompareAndSwap"+t] = cas
		intrinsics["sync/atomic.Swap"+t] = swap
		if t != "Pointer" {
			intrinsics["sync/atomic.Add"+t] = add
		}
	}
	nop := func(e *Engine, _ *frame, _ token.Pos, a []Value) Value { return nil }
	for _, n := range []string{"(*sync.Mutex).Lock", "(*sync.Mutex).Unlock", "(*sync.RWMutex).Lock", "(*sync.RWMutex).Unlock", "(*sync.RWMutex).RLock", "(*sync.RWMutex).RUnlock"} {
		intrinsics[n] = nop
	}
	intrinsics["(*sync.Mutex).TryLock"] = func(e *Engine, _ *frame, _ token.Pos, a []Value) Value { return term.True }
}

// ---- modelled directory listing (filepath.Glob) ----

func (e *Engine) notExistErr() Value {
	for _, pn := range []string{"io/fs", "internal/oserror"} {
		if pkg := e.prog.ImportedPackage(pn); pkg != nil {
			if g := pkg.Var("ErrNotExist"); g != nil {
				return *e.global(g)
			}
		}
	}
	return Iface{}
}

func (e *Engine) dirInfo() Value {
	pkg := e.prog.ImportedPackage(strings.TrimSuffix(rtPkg, "."))
	if pkg == nil || pkg.Type("DirInfo") == nil {
		panic(unsupported("zzverifrt.DirInfo not available"))
	}
	return Iface{T: pkg.Type("DirInfo").Type(), V: Struct{}}
}

// osStat: a modelled directory exists; a path dir/name exists iff name equals
// one of the directory's entries (decided by forking on symbolic names).
func osStat(e *Engine, fr *frame, _ token.Pos, a []Value) Value {
	e.note("model:directory-listing")
	if p, ok := a[0].(string); ok {
		for len(p) > 1 && strings.HasSuffix(p, "/") {
			p = strings.TrimSuffix(p, "/")
		}
		if _, isDir := e.dirs[p]; isDir {
			return Tuple{e.dirInfo(), Iface{}}
		}
	}
	pb := strBytes(a[0])
	for dir, names := range e.dirs {
		prefix := dir + "/"
		if len(pb) <= len(prefix) {
			continue
		}
		isPrefix := term.True
		for i := 0; i < len(prefix); i++ {
			isPrefix = term.BAnd(isPrefix, term.Eq(pb[i], term.Const(8, uint64(prefix[i]))))
		}
		if isPrefix.IsFalse() {
			continue
		}
		rest := mkStr(pb[len(prefix):])
		for _, n := range names {
			if e.branch(term.BAnd(isPrefix, e.strEq(rest, n)), "stat") {
				return Tuple{e.dirInfo(), Iface{}}
			}
		}
	}
	return Tuple{Iface{}, e.notExistErr()}
}

func osOpen(e *Engine, fr *frame, _ token.Pos, a []Value) Value {
	p, ok := a[0].(string)
	if !ok {
		panic(unsupported("os.Open of a symbolic path"))
	}
	for len(p) > 1 && strings.HasSuffix(p, "/") {
		p = strings.TrimSuffix(p, "/")
	}
	if _, isDir := e.dirs[p]; !isDir {
		return Tuple{(*Value)(nil), e.notExistErr()}
	}
	cell := new(Value)
	*cell = Opaque{"dir:" + p}
	return Tuple{cell, Iface{}}
}

func osReaddirnames(e *Engine, fr *frame, _ token.Pos, a []Value) Value {
	f := a[0].(*Value)
	o, ok := (*f).(Opaque)
	if !ok || !strings.HasPrefix(o.What, "dir:") {
		panic(unsupported("Readdirnames on an unmodelled file"))
	}
	names := e.dirs[strings.TrimPrefix(o.What, "dir:")]
	// os.File.Readdirnames(n): n <= 0 returns everything that is left and a nil
	// error; n > 0 returns at most n names and, once nothing is left, an empty
	// slice and io.EOF.  The handle remembers how far it has read.
	nT := asT(a[1])
	if !nT.IsConst() {
		panic(unsupported("Readdirnames with a symbolic count"))
	}
	n := int(int64(nT.Val))
	if e.dirOff == nil {
		e.dirOff = map[*Value]int{}
	}
	off := e.dirOff[f]
	rest := names[off:]
	if n > 0 {
		if len(rest) == 0 {
			eof := Value(Iface{})
			if pkg := e.prog.ImportedPackage("io"); pkg != nil {
				if g := pkg.Var("EOF"); g != nil {
					eof = *e.global(g)
				}
			}
			return Tuple{[]Value{}, eof}
		}
		if len(rest) > n {
			rest = rest[:n]
		}
	}
	e.dirOff[f] = off + len(rest)
	out := make([]Value, len(rest))
	copy(out, rest)
	return Tuple{out, Iface{}}
}
