package sym

import (
	"fmt"
	"go/types"

	"verif/engine/term"
)

// ---- loads and stores ----

func (e *Engine) load(p Value, t types.Type) Value {
	switch p := p.(type) {
	case *Value:
		if p == nil {
			e.goPanic("runtime error: invalid memory address or nil pointer dereference")
		}
		e.recordAccess(p, false)
		return copyVal(*p)
	case *SymPtr:
		return e.symLoad(p)
	case *BytePtr:
		w := asT(p.Base[p.Off/2])
		if p.Off%2 == 0 {
			return term.Extract(w, 7, 0)
		}
		return term.Extract(w, 15, 8)
	case *ROPtr:
		return copyVal(p.V)
	case *TablePtr:
		return p.V
	case *TableRef:
		panic(unsupported("load of whole multiplication table entry"))
	case nil:
		e.goPanic("runtime error: invalid memory address or nil pointer dereference")
	}
	panic(unsupported(fmt.Sprintf("load through %T", p)))
}

func (e *Engine) store(p Value, v Value) {
	switch p := p.(type) {
	case *Value:
		if p == nil {
			e.goPanic("runtime error: invalid memory address or nil pointer dereference")
		}
		e.recordAccess(p, true)
		*p = copyVal(v)
	case *SymPtr:
		if len(p.Base) > 4096 {
			panic(unsupported("store through symbolic index into large array"))
		}
		nv := asT(v)
		bits := idxBits(len(p.Base))
		idx := p.Idx
		if idx.W > bits {
			idx = term.Extract(idx, bits-1, 0)
		}
		for i := range p.Base {
			old := asT(p.Base[i])
			e.recordAccess(&p.Base[i], true)
			p.Base[i] = term.Ite(term.Eq(idx, term.Const(idx.W, uint64(i))), nv, old)
		}
	case *BytePtr:
		w := asT(p.Base[p.Off/2])
		b := asT(v)
		e.recordAccess(&p.Base[p.Off/2], true)
		if p.Off%2 == 0 {
			p.Base[p.Off/2] = term.Concat(term.Extract(w, 15, 8), b)
		} else {
			p.Base[p.Off/2] = term.Concat(b, term.Extract(w, 7, 0))
		}
	case *TablePtr:
		e.obligation(term.Eq(asT(v), p.V), "table-contract: value stored into "+p.Label+" equals the field product", false)
		if e.tableLoop != nil {
			if p.Key == "" {
				panic(unsupported("table loop: store with a symbolic inner index"))
			}
			e.tableLoop.stores[p.Key] = p.C
		}
	case *ROPtr, *TableRef:
		panic(unsupported("store to read-only table"))
	default:
		panic(unsupported(fmt.Sprintf("store through %T", p)))
	}
}

func idxBits(n int) int {
	b := 1
	for (1 << uint(b)) < n {
		b++
	}
	return b
}

func (e *Engine) symLoad(p *SymPtr) Value {
	n := len(p.Base)
	if n == 0 {
		panic(unsupported("symbolic load from empty array"))
	}
	first, ok := p.Base[0].(*term.T)
	if !ok {
		panic(unsupported("symbolic index into array of non-scalars"))
	}
	if p.Name != "" && n > 1024 {
		e.note("uf-table:" + p.Name)
		return term.Select(p.Name, p.Idx, first.W)
	}
	elems := make([]*term.T, n)
	allConst := true
	for i, v := range p.Base {
		elems[i] = asT(v)
		if !elems[i].IsConst() {
			allConst = false
		}
		e.recordAccess(&p.Base[i], false)
	}
	bits := idxBits(n)
	idx := p.Idx
	if idx.W > bits {
		idx = term.Extract(idx, bits-1, 0) // in range was established by the bounds check
	} else if idx.W < bits {
		idx = term.ZExt(idx, bits)
	}
	if allConst && n == 1<<uint(bits) && first.W > 0 {
		// affine table?  t[i] = t[0] ^ XOR_j bit_j(i) * (t[2^j] ^ t[0])
		aff := true
		t0 := elems[0].Val
		for i := 0; i < n && aff; i++ {
			v := t0
			for j := 0; j < bits; j++ {
				if i>>uint(j)&1 == 1 {
					v ^= elems[1<<uint(j)].Val ^ t0
				}
			}
			if v != elems[i].Val {
				aff = false
			}
		}
		if aff {
			r := term.Const(first.W, t0)
			for j := 0; j < bits; j++ {
				k := elems[1<<uint(j)].Val ^ t0
				if k == 0 {
					continue
				}
				bit := term.Eq(term.Extract(idx, j, j), term.Const(1, 1))
				r = term.Xor(r, term.Ite(bit, term.Const(first.W, k), term.Const(first.W, 0)))
			}
			return r
		}
	}
	var mux func(lo, hi, bit int) *term.T
	mux = func(lo, hi, bit int) *term.T {
		if hi-lo == 1 {
			return elems[lo]
		}
		mid := lo + 1<<uint(bit)
		if mid >= hi {
			return mux(lo, hi, bit-1)
		}
		c := term.Eq(term.Extract(idx, bit, bit), term.Const(1, 1))
		return term.Ite(c, mux(mid, hi, bit-1), mux(lo, mid, bit-1))
	}
	return mux(0, n, bits-1)
}

// ---- slices ----

func (e *Engine) sliceLen(v Value) int {
	switch s := v.(type) {
	case []Value:
		return len(s)
	case ViewSlice:
		return s.Len
	case WordView:
		return s.Len
	case nil:
		return 0
	case AbsSlice:
		panic(unsupported("concrete length of abstract slice"))
	}
	panic(unsupported(fmt.Sprintf("len of %T", v)))
}

func (e *Engine) sliceCap(v Value) int {
	switch s := v.(type) {
	case []Value:
		return cap(s)
	case ViewSlice:
		return s.Cap
	case WordView:
		return s.Cap
	case nil:
		return 0
	}
	panic(unsupported(fmt.Sprintf("cap of %T", v)))
}

func (e *Engine) sliceGet(v Value, i int) Value {
	switch s := v.(type) {
	case []Value:
		e.recordAccess(&s[i], false)
		return s[i]
	case ViewSlice:
		return e.load(&BytePtr{s.Base, s.Off + i}, nil)
	case WordView:
		lo := asT(s.Base[s.Off+2*i])
		hi := asT(s.Base[s.Off+2*i+1])
		return term.Concat(hi, lo)
	}
	panic(unsupported(fmt.Sprintf("index of %T", v)))
}

func (e *Engine) sliceSet(v Value, i int, x Value) {
	switch s := v.(type) {
	case []Value:
		e.recordAccess(&s[i], true)
		s[i] = x
	case ViewSlice:
		e.store(&BytePtr{s.Base, s.Off + i}, x)
	case WordView:
		w := asT(x)
		s.Base[s.Off+2*i] = term.Extract(w, 7, 0)
		s.Base[s.Off+2*i+1] = term.Extract(w, 15, 8)
	default:
		panic(unsupported(fmt.Sprintf("index-assign of %T", v)))
	}
}

func isScalarType(t types.Type) bool {
	_, ok := t.Underlying().(*types.Basic)
	return ok && typeWidth(t) >= 0
}

// indexAddr implements &x[idx] for slices and pointers to arrays.
func (e *Engine) indexAddr(x Value, idxv Value, elem types.Type, name string) Value {
	idx := asT(idxv)
	var base []Value
	switch x := x.(type) {
	case []Value:
		base = x
	case *Value:
		if x == nil {
			e.goPanic("runtime error: invalid memory address or nil pointer dereference")
		}
		switch a := (*x).(type) {
		case Array:
			base = a
		case TableRef:
			if idx.W > 16 {
				// index into [1<<16]entry: range check then truncate
				if e.branch(term.Ult(idx, term.Const(idx.W, 1<<16)), "table-index") {
					idx = term.Extract(idx, 15, 0)
				} else {
					e.goPanic("runtime error: index out of range")
				}
			} else {
				idx = term.ZExt(idx, 16)
			}
			return &TableRef{Kind: a.Kind, C: idx, Field: -1}
		default:
			panic(unsupported(fmt.Sprintf("IndexAddr on pointer to %T", *x)))
		}
	case *TableRef:
		return e.tableElem(x, idx)
	case ViewSlice:
		i, ok := e.checkIndex(idx, x.Len)
		if !ok {
			panic(unsupported("symbolic index into byte view"))
		}
		return &BytePtr{x.Base, x.Off + i}
	case *SymPtr, *BytePtr, *ROPtr:
		panic(unsupported(fmt.Sprintf("IndexAddr on %T", x)))
	case nil:
		e.goPanic("runtime error: index out of range [0] with length 0")
	default:
		panic(unsupported(fmt.Sprintf("IndexAddr on %T", x)))
	}
	if idx.IsInt() {
		if !idx.IsConst() && name != "" && isScalarType(elem) {
			inb := term.BAnd(term.ILe(term.IntConst(0), idx), term.ILt(idx, term.IntConst(int64(len(base)))))
			if !e.branch(inb, "bounds") {
				e.goPanic(fmt.Sprintf("runtime error: index out of range [symbolic] with length %d", len(base)))
			}
			return &SymPtr{Base: base, Idx: term.Int2BV(idx, 64), Name: name}
		}
		idx = term.Const(64, e.concretize(idx, "index"))
	}
	if idx.IsConst() {
		i := idx.SVal()
		if i < 0 || i >= int64(len(base)) {
			e.goPanic(fmt.Sprintf("runtime error: index out of range [%d] with length %d", i, len(base)))
		}
		return &base[i]
	}
	// a symbolic index that the path condition pins to one value is concrete
	if name != "" && len(base) > 1024 {
		if v, ok := e.uniqueValue(idx); ok {
			if v >= uint64(len(base)) {
				e.goPanic(fmt.Sprintf("runtime error: index out of range [%d] with length %d", int64(v), len(base)))
			}
			e.note("index-pinned-by-path")
			return &base[v]
		}
	}
	// symbolic index: bounds check is a branch
	if !e.branch(term.Ult(idx, term.Const(idx.W, uint64(len(base)))), "bounds") {
		e.goPanic(fmt.Sprintf("runtime error: index out of range [symbolic] with length %d", len(base)))
	}
	if len(base) == 1 {
		return &base[0]
	}
	if isScalarType(elem) && (len(base) <= 4096 || name != "") {
		return &SymPtr{Base: base, Idx: idx, Name: name}
	}
	i := e.concretize(idx, "index")
	return &base[i]
}

// checkIndex returns the concrete index (after a bounds check) or ok=false
// when idx is symbolic.
func (e *Engine) checkIndex(idx *term.T, n int) (int, bool) {
	if !idx.IsConst() {
		if !e.branch(term.Ult(idx, term.Const(idx.W, uint64(n))), "bounds") {
			e.goPanic(fmt.Sprintf("runtime error: index out of range [symbolic] with length %d", n))
		}
		return int(e.concretize(idx, "index")), true
	}
	i := idx.SVal()
	if i < 0 || i >= int64(n) {
		e.goPanic(fmt.Sprintf("runtime error: index out of range [%d] with length %d", i, n))
	}
	return int(i), true
}

func tableKey(field int, idx *term.T) string {
	if !idx.IsConst() {
		return ""
	}
	return fmt.Sprintf("f%d[%d]", field, idx.Val)
}

func (e *Engine) tableElem(x *TableRef, idx *term.T) Value {
	if x.Field < 0 {
		panic(unsupported("index of whole table entry"))
	}
	e.note("table-contract:" + x.Kind)
	switch x.Kind {
	case "mulTable":
		// s0[j] = c*j, s8[j] = c*(j<<8), j < 256
		if !e.branch(term.Ult(idx, term.Const(idx.W, 256)), "bounds") {
			e.goPanic("runtime error: index out of range with length 256")
		}
		j := term.Extract(idx, 7, 0)
		var w *term.T
		if x.Field == 0 {
			w = term.ZExt(j, 16)
		} else {
			w = term.Concat(j, term.Const(8, 0))
		}
		return &TablePtr{V: term.GFMul(x.C, w), Label: fmt.Sprintf("mulTable[c].s%d[j]", 8*x.Field), C: x.C, Key: tableKey(x.Field, idx)}
	case "mulTable64":
		if !e.branch(term.Ult(idx, term.Const(idx.W, 16)), "bounds") {
			e.goPanic("runtime error: index out of range with length 16")
		}
		j := term.Extract(idx, 3, 0)
		sh := (x.Field % 4) * 4
		w := term.Shl(term.ZExt(j, 16), term.Const(8, uint64(sh)))
		p := term.GFMul(x.C, w)
		if x.Field < 4 {
			return &TablePtr{V: term.Extract(p, 7, 0), Label: fmt.Sprintf("mulTable64[c].s%dLow[j]", sh), C: x.C, Key: tableKey(x.Field, idx)}
		}
		return &TablePtr{V: term.Extract(p, 15, 8), Label: fmt.Sprintf("mulTable64[c].s%dHigh[j]", sh), C: x.C, Key: tableKey(x.Field, idx)}
	}
	panic(unsupported("table kind " + x.Kind))
}

// sliceOp implements x[lo:hi:max].
func (e *Engine) sliceOp(x Value, lov, hiv, maxv Value, xt types.Type) Value {
	get := func(v Value, def int) *term.T {
		if v == nil {
			return cint(def)
		}
		return asT(v)
	}
	if as, ok := x.(AbsSlice); ok {
		if maxv != nil {
			panic(unsupported("3-index slice of abstract slice"))
		}
		lo := toInt(get(lov, 0), types.Typ[types.Int])
		hi := as.Len
		if hiv != nil {
			hi = toInt(asT(hiv), types.Typ[types.Int])
		}
		ok := term.BAnd(term.ILe(term.IntConst(0), lo), term.BAnd(term.ILe(lo, hi), term.ILe(hi, as.Cap)))
		if !e.branch(ok, "slice-bounds") {
			e.goPanic("runtime error: slice bounds out of range")
		}
		return AbsSlice{ID: as.ID, Off: term.IAdd(as.Off, lo), Len: term.ISub(hi, lo), Cap: term.ISub(as.Cap, lo)}
	}
	var length, capacity int
	switch s := x.(type) {
	case []Value:
		length, capacity = len(s), cap(s)
	case *Value: // pointer to array
		if s == nil {
			e.goPanic("runtime error: invalid memory address or nil pointer dereference")
		}
		a, ok := (*s).(Array)
		if !ok {
			panic(unsupported(fmt.Sprintf("slice of pointer to %T", *s)))
		}
		length, capacity = len(a), len(a)
		x = []Value(a)
	case string:
		length, capacity = len(s), len(s)
	case *SymStr:
		length, capacity = len(s.B), len(s.B)
	case ViewSlice:
		length, capacity = s.Len, s.Cap
	case WordView:
		length, capacity = s.Len, s.Cap
	case nil:
		x = []Value(nil)
	default:
		panic(unsupported(fmt.Sprintf("slice of %T", x)))
	}
	lo := get(lov, 0)
	hi := get(hiv, length)
	max := get(maxv, capacity)
	_, isStr := x.(string)
	if _, ok := x.(*SymStr); ok {
		isStr = true
	}
	limit := capacity
	if isStr {
		limit = length
	}
	if !(lo.IsConst() && hi.IsConst() && max.IsConst()) {
		toI := func(t *term.T) *term.T {
			if t.IsInt() {
				return t
			}
			return term.BV2Int(t, true)
		}
		var ok *term.T
		if lo.IsInt() || hi.IsInt() || max.IsInt() {
			l, h, m := toI(lo), toI(hi), toI(max)
			ok = term.AndAll(term.ILe(term.IntConst(0), l), term.ILe(l, h), term.ILe(h, m), term.ILe(m, term.IntConst(int64(limit))))
		} else {
			ok = term.AndAll(term.Sle(cint(0), lo), term.Sle(lo, hi), term.Sle(hi, max), term.Sle(max, cint(limit)))
		}
		if !e.branch(ok, "slice-bounds") {
			e.goPanic("runtime error: slice bounds out of range [symbolic]")
		}
		lo = cint(int(e.concretize(lo, "slice-lo")))
		hi = cint(int(e.concretize(hi, "slice-hi")))
		max = cint(int(e.concretize(max, "slice-max")))
	}
	l, h, m := int(lo.SVal()), int(hi.SVal()), int(max.SVal())
	if l < 0 || l > h || h > m || m > limit {
		e.goPanic(fmt.Sprintf("runtime error: slice bounds out of range [%d:%d:%d] with capacity %d", l, h, m, limit))
	}
	switch s := x.(type) {
	case []Value:
		if s == nil {
			return []Value(nil)
		}
		return s[l:h:m]
	case string:
		return s[l:h]
	case *SymStr:
		return mkStr(s.B[l:h])
	case ViewSlice:
		return ViewSlice{Base: s.Base, Off: s.Off + l, Len: h - l, Cap: m - l}
	case WordView:
		return WordView{Base: s.Base, Off: s.Off + 2*l, Len: h - l, Cap: m - l}
	}
	panic("unreachable")
}

// Go 1.23 malloc size classes (bytes), used to mimic append's capacity growth.
var sizeClasses = []int{0, 8, 16, 24, 32, 48, 64, 80, 96, 112, 128, 144, 160, 176, 192, 208, 224, 240, 256, 288, 320, 352, 384, 416, 448, 480, 512, 576, 640, 704, 768, 896, 1024, 1152, 1280, 1408, 1536, 1792, 2048, 2304, 2688, 3072, 3200, 3456, 4096, 4864, 5376, 6144, 6528, 6784, 6912, 8192, 9472, 9728, 10240, 10880, 12288, 13568, 14336, 16384, 18432, 19072, 20480, 21760, 24576, 27264, 28672, 32768}

func roundupsize(n int) int {
	if n <= 32768 {
		for _, c := range sizeClasses {
			if c >= n {
				return c
			}
		}
	}
	const page = 8192
	return (n + page - 1) / page * page
}

func growCap(oldCap, needed, elemSize int) int {
	newcap := oldCap
	doublecap := newcap + newcap
	if needed > doublecap {
		newcap = needed
	} else {
		const threshold = 256
		if oldCap < threshold {
			newcap = doublecap
		} else {
			for newcap < needed {
				newcap += (newcap + 3*threshold) >> 2
			}
		}
	}
	if elemSize <= 0 {
		return newcap
	}
	mem := roundupsize(newcap * elemSize)
	return mem / elemSize
}

func (e *Engine) appendVals(s Value, elems []Value, elemType types.Type) Value {
	var base []Value
	switch s := s.(type) {
	case []Value:
		base = s
	case nil:
	case ViewSlice, WordView:
		panic(unsupported("append to view slice"))
	default:
		panic(unsupported(fmt.Sprintf("append to %T", s)))
	}
	if len(elems) == 0 {
		return base
	}
	n := len(base) + len(elems)
	if n <= cap(base) {
		out := base[:n]
		for i, x := range elems {
			e.recordAccess(&out[len(base)+i], true)
			out[len(base)+i] = copyVal(x)
		}
		return out
	}
	es := int(e.sizes.Sizeof(elemType))
	nc := growCap(cap(base), n, es)
	if nc < n {
		nc = n
	}
	out := make([]Value, n, nc)
	copy(out, base)
	for i, x := range elems {
		out[len(base)+i] = copyVal(x)
	}
	// zero the spare capacity so later reslicing sees zero values
	spare := out[n:nc]
	for i := range spare {
		spare[i] = zero(elemType)
	}
	return out
}

func (e *Engine) sliceElems(v Value) []Value {
	switch s := v.(type) {
	case []Value:
		return s
	case nil:
		return nil
	case string, *SymStr:
		bs := strBytes(s)
		out := make([]Value, len(bs))
		for i, b := range bs {
			out[i] = b
		}
		return out
	default:
		n := e.sliceLen(v)
		out := make([]Value, n)
		for i := 0; i < n; i++ {
			out[i] = e.sliceGet(v, i)
		}
		return out
	}
}

func (e *Engine) copySlice(dst, src Value) int {
	srcElems := e.sliceElems(src)
	n := e.sliceLen(dst)
	if len(srcElems) < n {
		n = len(srcElems)
	}
	tmp := make([]Value, n)
	for i := 0; i < n; i++ {
		tmp[i] = copyVal(srcElems[i])
	}
	for i := 0; i < n; i++ {
		e.sliceSet(dst, i, tmp[i])
	}
	return n
}
