package sym

import (
	"crypto/sha256"
	"encoding/binary"
	"fmt"
	"go/token"
	"go/types"
	"os"
	"path/filepath"
	"sort"
	"strings"

	"golang.org/x/tools/go/packages"
	"golang.org/x/tools/go/ssa"
	"golang.org/x/tools/go/ssa/ssautil"

	"verif/engine/solver"
	"verif/engine/term"
)

type LoadConfig struct {
	Repo       string   // /repo
	Patterns   []string // e.g. ./par2
	HarnessDir string   // /verif/harness
	Tables     string   // optional path to gf2p16 table dump
	Solver     string
	TimeoutMs  int
	Debug      bool
	SMTLog     string
}

type Program struct {
	Prog    *ssa.Program
	Pkgs    []*ssa.Package
	Sizes   types.Sizes
	Fset    *token.FileSet
	Overlay map[string][]byte
	cfg     LoadConfig
	srcHash map[string]string
}

// BuildOverlay maps harness/<pkg>/*.go into <repo>/<pkg>/ and harness/rt into
// <repo>/internal/zzverifrt.
func BuildOverlay(repo, hdir string) (map[string][]byte, error) {
	ov := map[string][]byte{}
	err := filepath.Walk(hdir, func(p string, info os.FileInfo, err error) error {
		if err != nil || info.IsDir() || !strings.HasSuffix(p, ".go") {
			return err
		}
		rel, _ := filepath.Rel(hdir, p)
		if strings.HasSuffix(p, "_native.go") || strings.HasSuffix(p, "_test.go") {
			// native-only files are still type-checked: they carry the replay runtime
		}
		b, err := os.ReadFile(p)
		if err != nil {
			return err
		}
		var dst string
		if strings.HasPrefix(rel, "rt/") {
			dst = filepath.Join(repo, "internal/zzverifrt", strings.TrimPrefix(rel, "rt/"))
		} else {
			dst = filepath.Join(repo, rel)
		}
		ov[dst] = b
		return nil
	})
	return ov, err
}

func Load(cfg LoadConfig) (*Program, error) {
	ov, err := BuildOverlay(cfg.Repo, cfg.HarnessDir)
	if err != nil {
		return nil, err
	}
	// test files are for native replay only
	for k := range ov {
		if strings.HasSuffix(k, "_test.go") {
			delete(ov, k)
		}
	}
	pcfg := &packages.Config{
		Mode: packages.NeedName | packages.NeedFiles | packages.NeedCompiledGoFiles | packages.NeedImports |
			packages.NeedDeps | packages.NeedTypes | packages.NeedSyntax | packages.NeedTypesInfo | packages.NeedTypesSizes | packages.NeedModule,
		Dir:     cfg.Repo,
		Env:     append(os.Environ(), "GOFLAGS=-mod=mod", "GOPROXY=off", "GOSUMDB=off", "GOTOOLCHAIN=local", "CGO_ENABLED=0"),
		Overlay: ov,
	}
	initial, err := packages.Load(pcfg, cfg.Patterns...)
	if err != nil {
		return nil, err
	}
	nerr := 0
	packages.Visit(initial, nil, func(p *packages.Package) {
		for _, e := range p.Errors {
			fmt.Fprintf(os.Stderr, "load error: %v\n", e)
			nerr++
		}
	})
	if nerr > 0 {
		return nil, fmt.Errorf("%d package load errors", nerr)
	}
	prog, pkgs := ssautil.AllPackages(initial, ssa.InstantiateGenerics)
	prog.Build()
	p := &Program{Prog: prog, Pkgs: pkgs, Fset: prog.Fset, Overlay: ov, cfg: cfg, srcHash: map[string]string{}}
	if len(initial) > 0 && initial[0].TypesSizes != nil {
		p.Sizes = initial[0].TypesSizes
	} else {
		p.Sizes = types.SizesFor("gc", "amd64")
	}
	return p, nil
}

// FindFunc finds a package-level function by name in the initial packages.
func (p *Program) FindFunc(name string) *ssa.Function {
	for _, pkg := range p.Pkgs {
		if pkg == nil {
			continue
		}
		if f := pkg.Func(name); f != nil {
			return f
		}
	}
	return nil
}

// Harnesses lists VerifHarness_<prefix>* functions.
func (p *Program) Harnesses(prefix string) []string {
	var out []string
	for _, pkg := range p.Pkgs {
		if pkg == nil {
			continue
		}
		for name, m := range pkg.Members {
			if _, ok := m.(*ssa.Function); ok && strings.HasPrefix(name, "VerifHarness_"+prefix) {
				out = append(out, name)
			}
		}
	}
	sort.Strings(out)
	return out
}

// SourceHash hashes the source text of a function (for the evidence).
func (p *Program) SourceHash(fn *ssa.Function) string {
	if fn.Syntax() == nil {
		return ""
	}
	start := p.Fset.Position(fn.Syntax().Pos())
	end := p.Fset.Position(fn.Syntax().End())
	var src []byte
	if b, ok := p.Overlay[start.Filename]; ok {
		src = b
	} else {
		b, err := os.ReadFile(start.Filename)
		if err != nil {
			return ""
		}
		src = b
	}
	if start.Offset < 0 || end.Offset > len(src) || start.Offset > end.Offset {
		return ""
	}
	h := sha256.Sum256(src[start.Offset:end.Offset])
	return fmt.Sprintf("%x", h[:6])
}

func ssautilAllFunctions(p *ssa.Program) map[*ssa.Function]bool { return ssautil.AllFunctions(p) }

func NewEngine(p *Program) (*Engine, error) {
	bin := p.cfg.Solver
	if bin == "" {
		bin = "z3"
	}
	to := p.cfg.TimeoutMs
	if to == 0 {
		to = 60000
	}
	s, err := solver.New(bin, to)
	if err != nil {
		return nil, err
	}
	if p.cfg.SMTLog != "" {
		f, err := os.Create(p.cfg.SMTLog)
		if err != nil {
			return nil, err
		}
		s.Log = f
	}
	e := &Engine{prog: p.Prog, sizes: p.Sizes, globals: map[*ssa.Global]*Value{}, inited: map[*ssa.Package]bool{}, S: s,
		notes: map[string]int{}, fresh: map[string]int{}, replaced: map[string]Value{}, cuts: map[string]*cutSpec{}, curTask: -1,
		pinned: map[string]uint64{}, dbg: p.cfg.Debug, program: p}
	if rt := p.Prog.ImportedPackage("runtime"); rt != nil {
		if t := rt.Type("errorString"); t != nil {
			e.runtimeErrT = t.Object().Type()
		}
	}
	if e.runtimeErrT == nil {
		e.runtimeErrT = types.Typ[types.String]
	}
	e.res = newResult("init")
	e.skipInit = map[*ssa.Function]func(){}
	e.setupGF2P16()
	return e, nil
}

func (e *Engine) Close() { e.S.Close() }

// Pin fixes input variables to concrete values (translator validation and
// counterexample re-execution).
func (e *Engine) Pin(m map[string]uint64) { e.pinned = m }

var initWhitelist = map[string]bool{
	"errors": true, "io": true, "io/fs": true, "internal/oserror": true, "bytes": true, "path": true,
	"path/filepath": true, "unicode/utf8": true, "unicode/utf16": true, "hash/crc32": true, "sort": true,
	"strings": true, "encoding/binary": true, "github.com/klauspost/reedsolomon": true, "io/ioutil": true, "internal/bytealg": false, "math": true,
}

func initAllowed(path string) bool {
	if strings.HasPrefix(path, "github.com/akalin/gopar") {
		return true
	}
	return initWhitelist[path]
}

// initPackage runs the package initialiser once (whitelisted packages only).
func (e *Engine) initPackage(pkg *ssa.Package) {
	if pkg == nil || e.inited[pkg] {
		return
	}
	e.inited[pkg] = true
	path := pkg.Pkg.Path()
	if !initAllowed(path) {
		e.note("init-skipped:" + path)
		return
	}
	fn := pkg.Func("init")
	if fn == nil || fn.Blocks == nil {
		return
	}
	was := e.initing
	e.initing = true
	defer func() { e.initing = was }()
	// run the synthetic init body directly (callSSA would route back here)
	fr := &frame{e: e, fn: fn, env: map[ssa.Value]Value{}}
	fr.block = fn.Blocks[0]
	for _, l := range fn.Locals {
		cell := new(Value)
		*cell = zero(deref(l.Type()))
		fr.env[l] = cell
	}
	for fr.block != nil {
		e.runFrame(fr)
	}
}

// InitPackages initialises the given packages before exploration.
func (e *Engine) InitPackages(pkgs []*ssa.Package) (err error) {
	defer func() {
		if r := recover(); r != nil {
			err = fmt.Errorf("package initialisation failed: %v%s", r, e.where())
		}
	}()
	e.opt.MaxSteps = 1 << 40
	e.S.Reset()
	for _, p := range pkgs {
		if p != nil {
			e.initPackage(p)
		}
	}
	return nil
}

// loadTables fills gf2p16.logTable / expTable from the native dump.
func (e *Engine) loadTables(pkg *ssa.Package) {
	path := e.program.cfg.Tables
	if path == "" {
		panic(unsupported("gf2p16 tables requested but no -tables dump given"))
	}
	b, err := os.ReadFile(path)
	if err != nil {
		panic(unsupported("cannot read gf2p16 table dump: " + err.Error()))
	}
	const n = 65535
	if len(b) != 4*n {
		panic(unsupported(fmt.Sprintf("gf2p16 table dump has %d bytes, want %d", len(b), 4*n)))
	}
	logT := make(Array, n)
	expT := make(Array, n)
	for i := 0; i < n; i++ {
		logT[i] = term.Const(16, uint64(binary.LittleEndian.Uint16(b[2*i:])))
		expT[i] = term.Const(16, uint64(binary.LittleEndian.Uint16(b[2*n+2*i:])))
	}
	*e.global(pkg.Var("logTable")) = logT
	*e.global(pkg.Var("expTable")) = expT
	e.note("tables:native-dump")
}

// refersTo reports whether fn mentions the named package-level variable.
func refersTo(fn *ssa.Function, global string) bool {
	for _, b := range fn.Blocks {
		for _, in := range b.Instrs {
			for _, op := range in.Operands(nil) {
				if g, ok := (*op).(*ssa.Global); ok && g.Name() == global {
					return true
				}
			}
		}
	}
	return false
}

// setupGF2P16 finds the table-building and CPU-detection initialisers of
// gf2p16 by what they touch (their init#N numbers depend on file order).
func (e *Engine) setupGF2P16() {
	pkg := e.prog.ImportedPackage("github.com/akalin/gopar/gf2p16")
	if pkg == nil {
		return
	}
	for name, m := range pkg.Members {
		fn, ok := m.(*ssa.Function)
		if !ok || !strings.HasPrefix(name, "init#") {
			continue
		}
		switch {
		case refersTo(fn, "logTable"):
			e.tableInit = fn
			e.skipInit[fn] = func() { e.loadTables(pkg) }
		case refersTo(fn, "hasSSSE3"):
			e.skipInit[fn] = func() {
				if g := pkg.Var("hasSSSE3"); g != nil {
					*e.global(g) = term.Var("cpu_hasSSSE3", 0)
				}
			}
		}
	}
}
