package sym

import (
	"fmt"
	"os"
	"runtime/debug"
	"sort"
	"strings"
	"time"

	"golang.org/x/tools/go/ssa"

	"verif/engine/solver"
	"verif/engine/term"
)

type ObStat struct {
	Trivial  int `json:"trivial"`
	ByANF    int `json:"by_normaliser"`
	BySolver int `json:"by_solver"`
	Violated int `json:"violated"`
	Unknown  int `json:"unknown"`
	Skipped  int `json:"skipped_after_violation,omitempty"`
}

type Cex struct {
	Label     string            `json:"label"`
	Model     map[string]uint64 `json:"model"`
	Decisions []uint64          `json:"decisions"`
	Kind      string            `json:"kind"` // assert | panic | exit
}

type Result struct {
	Harness      string              `json:"harness"`
	Paths        int                 `json:"paths"`
	PathEnds     map[string]int      `json:"path_ends"`
	Obligations  map[string]*ObStat  `json:"obligations"`
	AutoObs      map[string]*ObStat  `json:"auto_obligations"`
	Cex          []Cex               `json:"counterexamples"`
	Unsupported  []string            `json:"unsupported"`
	Reached      map[string]int      `json:"reached"`
	Notes        map[string]int      `json:"notes"`
	Funcs        map[string]int      `json:"functions_encoded"`
	Vars         []string            `json:"input_vars"`
	FeasQueries  int                 `json:"feasibility_queries"`
	UnknownFeas  int                 `json:"unknown_feasibility"`
	Merges       int                 `json:"merged_diamonds"`
	Steps        int                 `json:"ssa_steps"`
	MaxAllocs    []string            `json:"largest_allocations,omitempty"`
	KernelCalls  []string            `json:"kernel_calls,omitempty"`
	TasksChecked int                 `json:"tasks_checked"`
	Solver       solver.Stats        `json:"solver"`
	WallS        float64             `json:"wall_s"`
	Truncated    bool                `json:"truncated"`
	Samples      []string            `json:"sample_obligations"`
	ExitCodes    map[string]int      `json:"exit_codes,omitempty"`
	Witnesses    []map[string]uint64 `json:"witness_inputs,omitempty"`
	CrossUnsat   int                 `json:"normal_form_crosscheck_unsat"`
	CrossUnknown int                 `json:"normal_form_crosscheck_timeout"`
	CrossSat     int                 `json:"normal_form_crosscheck_disagree"`

	varSeen  map[string]bool
	vars     []*term.T
	allocMax int64
}

func newResult(h string) *Result {
	return &Result{Harness: h, PathEnds: map[string]int{}, Obligations: map[string]*ObStat{}, AutoObs: map[string]*ObStat{},
		Reached: map[string]int{}, Notes: map[string]int{}, Funcs: map[string]int{}, varSeen: map[string]bool{}, ExitCodes: map[string]int{}}
}

func (r *Result) noteVar(v *term.T) {
	if !r.varSeen[v.Name] {
		r.varSeen[v.Name] = true
		r.vars = append(r.vars, v)
		r.Vars = append(r.Vars, v.Name)
	}
}

func (r *Result) noteAlloc(n int, es int64, where string) {
	b := int64(n) * es
	if b > r.allocMax {
		r.allocMax = b
		r.MaxAllocs = append(r.MaxAllocs, fmt.Sprintf("%d bytes at %s", b, where))
		if len(r.MaxAllocs) > 5 {
			r.MaxAllocs = r.MaxAllocs[len(r.MaxAllocs)-5:]
		}
	}
}

func (r *Result) ob(label string, auto bool) *ObStat {
	m := r.Obligations
	if auto {
		m = r.AutoObs
	}
	s := m[label]
	if s == nil {
		s = &ObStat{}
		m[label] = s
	}
	return s
}

// assume adds c to the path condition; an infeasible assumption ends the path.
func (e *Engine) assume(c *term.T) {
	if !c.IsConst() {
		c = term.RewriteCond(c)
	}
	if c.IsTrue() {
		return
	}
	if c.IsFalse() {
		panic(pathEnd{"assume-false"})
	}
	if !e.replaying() {
		r, _ := e.S.CheckWith(c, nil)
		e.res.FeasQueries++
		if r == solver.Unsat {
			panic(pathEnd{"assume-false"})
		}
		if r == solver.Unknown {
			e.res.UnknownFeas++
		}
	}
	e.assertPC(c)
}

// obligation checks that c holds on the current path.
func (e *Engine) obligation(c *term.T, label string, auto bool) {
	if e.spec != nil {
		c = term.Implies(e.spec, c)
	}
	rewritten := false
	if !c.IsConst() {
		c0 := c
		c = term.RewriteCond(c)
		rewritten = c != c0
	}
	if e.replaying() {
		// already decided by the parent path under the same path condition
		return
	}
	st := e.res.ob(label, auto)
	if rewritten && c.IsTrue() {
		// closed by the affine / injective-hash rewriting of the term layer
		st.ByANF++
		return
	}
	if st.Violated >= 2 && !c.IsTrue() {
		// this obligation already has counterexamples: do not spend solver time on more of the same
		st.Skipped++
		return
	}
	switch {
	case c.IsTrue():
		st.Trivial++
		return
	case term.ANFProve(c):
		st.ByANF++
		e.sample(label, c, "normaliser")
		e.crossCheck(label, c)
		return
	case e.anfUnderPC(c):
		st.ByANF++
		e.sample(label, c, "normaliser modulo an assumed equality")
		e.assertPC(c)
		return
	}
	t0 := time.Now()
	defer func() {
		if e.dbg {
			fmt.Fprintf(os.Stderr, "  obligation %q decided in %.2fs (term size %d)\n", label, time.Since(t0).Seconds(), term.Size(c))
		}
	}()
	var r solver.Result
	var m map[string]uint64
	if c.IsFalse() {
		r = e.S.Check()
		if r == solver.Sat {
			m = e.S.Model(e.res.vars)
		}
	} else {
		r, m = e.S.CheckWith(term.BNot(c), e.res.vars)
	}
	switch r {
	case solver.Unsat:
		st.BySolver++
		e.sample(label, c, "solver")
	case solver.Sat:
		st.Violated++
		m = e.minimizeVars(term.BNot(c), m, e.opt.MinimizeWords)
		e.res.Cex = append(e.res.Cex, Cex{Label: label, Model: m, Decisions: append([]uint64(nil), e.decisions...), Kind: "assert"})
		if e.opt.StopAtFirst {
			panic(pathEnd{"violation"})
		}
		if c.IsFalse() {
			panic(pathEnd{"violation"})
		}
		rr, _ := e.S.CheckWith(c, nil)
		if rr == solver.Unsat {
			panic(pathEnd{"violation"})
		}
	default:
		st.Unknown++
	}
	e.assertPC(c)
}

// crossCheck sends the first few normal-form-proved obligations of every label
// to the solver as well (raw, short timeout): a sat answer means the
// normaliser is wrong and makes the run inconclusive.
func (e *Engine) crossCheck(label string, c *term.T) {
	if e.crossN[label] >= 2 {
		return
	}
	e.crossN[label]++
	e.S.SetTimeout(4000)
	r, _ := e.S.CheckWith(term.BNot(c), nil)
	e.S.SetTimeout(e.S.TimeoutMs)
	switch r {
	case solver.Unsat:
		e.res.CrossUnsat++
	case solver.Sat:
		e.res.CrossSat++
		e.res.Unsupported = append(e.res.Unsupported, "normal-form prover disagrees with the solver on: "+label)
	default:
		e.res.CrossUnknown++
	}
}

// anfUnderPC proves an equality A == K from an assumed equality B == K on the
// path condition by showing that A and B have the same normal form.
func (e *Engine) anfUnderPC(c *term.T) bool {
	if c.Op != term.OpEq || c.Args[0].W <= 0 {
		return false
	}
	x, y := c.Args[0], c.Args[1]
	for _, p := range e.pc {
		if p.Op != term.OpEq || p.Args[0].W != x.W {
			continue
		}
		u, v := p.Args[0], p.Args[1]
		// x == y given u == v: normal form of x^y^u^v must be zero
		if eq, dec := term.ANFEqual(term.Xor(x, y), term.Xor(u, v)); eq && dec {
			return true
		}
	}
	return false
}

// minimizeInts shrinks the integer-sorted inputs of a counterexample (lengths,
// counts) one after the other by binary search with the solver, so that the
// native replay gets the smallest failing sizes.
func (e *Engine) minimizeInts(neg *term.T, m map[string]uint64) map[string]uint64 {
	return e.minimizeVars(neg, m, false)
}

// minimizeVars shrinks integer inputs of a model one after the other by binary
// search with the solver: mathematical integers always, 64-bit machine words
// (as unsigned values) when withWords is set.  Used so that native replays get
// sizes they can allocate.
func (e *Engine) minimizeVars(neg *term.T, m map[string]uint64, withWords bool) map[string]uint64 {
	var ints []*term.T
	for _, v := range e.res.vars {
		if v.IsInt() || (withWords && v.W == 64) {
			ints = append(ints, v)
		}
	}
	if len(ints) == 0 || len(ints) > 8 {
		return m
	}
	le := func(v *term.T, k int64) *term.T {
		if v.IsInt() {
			return term.BAnd(term.ILe(v, term.IntConst(k)), term.ILe(term.IntConst(0), v))
		}
		return term.Ule(v, term.Const(64, uint64(k)))
	}
	eq := func(v *term.T, k int64) *term.T {
		if v.IsInt() {
			return term.Eq(v, term.IntConst(k))
		}
		return term.Eq(v, term.Const(64, uint64(k)))
	}
	e.S.Push()
	e.S.Assert(neg)
	for _, v := range ints {
		cur := int64(m[v.Name])
		if cur <= 0 {
			e.S.Assert(eq(v, cur))
			continue
		}
		lo, hi := int64(0), cur
		for lo < hi {
			mid := lo + (hi-lo)/2
			e.S.Push()
			e.S.Assert(le(v, mid))
			r := e.S.Check()
			if r == solver.Sat {
				m2 := e.S.Model(e.res.vars)
				hi = int64(m2[v.Name])
				m = m2
			} else {
				lo = mid + 1
			}
			e.S.Pop()
		}
		e.S.Assert(eq(v, hi))
	}
	e.S.Pop()
	return m
}

func (e *Engine) sample(label string, c *term.T, how string) {
	if len(e.res.Samples) < 8 {
		s := c.String()
		if len(s) > 300 {
			s = s[:300] + "…"
		}
		e.res.Samples = append(e.res.Samples, fmt.Sprintf("[%s] %s: %s (pc has %d conjuncts)", how, label, s, len(e.pc)))
	}
}

// Run explores all paths of the harness function.
func (e *Engine) Run(fn *ssa.Function, base Options) *Result {
	t0 := time.Now()
	e.res = newResult(fn.Name())
	if base.MaxSteps == 0 {
		base.MaxSteps = 20_000_000
	}
	if base.MaxPaths == 0 {
		base.MaxPaths = 100000
	}
	e.pending = [][]uint64{nil}
	e.crossN = map[string]int{}
	for len(e.pending) > 0 {
		if e.res.Paths >= base.MaxPaths {
			e.res.Truncated = true
			e.res.Unsupported = append(e.res.Unsupported, fmt.Sprintf("path limit %d reached with %d paths pending", base.MaxPaths, len(e.pending)))
			break
		}
		if base.StopAtFirst && len(e.res.Cex) > 0 {
			e.res.Truncated = true
			break
		}
		if len(e.res.Cex) >= 12 {
			// enough counterexamples to report; the run is a failure either way
			e.res.Truncated = true
			break
		}
		prefix := e.pending[len(e.pending)-1]
		e.pending = e.pending[:len(e.pending)-1]
		e.runPath(fn, prefix, base)
	}
	e.res.Solver = e.S.Stats
	e.res.WallS = time.Since(t0).Seconds()
	sort.Strings(e.res.Vars)
	return e.res
}

func (e *Engine) runPath(fn *ssa.Function, prefix []uint64, base Options) {
	e.resetGlobals()
	e.S.Reset()
	e.pc = nil
	e.prefix = prefix
	e.decisions = nil
	e.decided = map[uint32]bool{}
	e.pcVars = map[uint32]bool{}
	e.pcSeen = map[uint32]bool{}
	e.uniq = map[uint32]uniqRes{}
	e.steps = 0
	e.fresh = map[string]int{}
	e.notes = e.res.Notes
	e.replaced = map[string]Value{}
	e.cuts = map[string]*cutSpec{}
	e.tasks = nil
	e.curTask = -1
	e.foot = map[int]*footprint{}
	e.opt = base
	e.wgAdd = 0
	e.wgSym = nil
	e.mapOrder = nil
	e.mapOrderN = 0
	e.spec = nil
	e.cwd = ""
	e.dirs = nil
	e.files = nil
	e.dirOff = nil
	e.md5Acc = nil
	e.pools = nil
	e.gomaxprocs = nil
	e.tableLoop = nil
	e.absKernel = nil
	e.res.Paths++
	end := "completed"
	defer func() {
		e.res.Steps += e.steps
		if r := recover(); r != nil {
			switch r := r.(type) {
			case pathEnd:
				end = r.why
			case unsupported:
				end = "unsupported"
				msg := string(r) + e.where()
				dup := false
				for _, u := range e.res.Unsupported {
					if u == msg {
						dup = true
					}
				}
				if !dup {
					e.res.Unsupported = append(e.res.Unsupported, msg)
				}
			case targetPanic:
				end = "panic"
				e.recordPanic(r)
			case exitPanic:
				end = "exit"
				e.res.ExitCodes[r.code.String()]++
			default:
				end = "internal-error"
				msg := fmt.Sprintf("internal error: %v\n%s", r, debug.Stack())
				if len(e.res.Unsupported) < 5 {
					e.res.Unsupported = append(e.res.Unsupported, msg)
				}
			}
		}
		e.res.PathEnds[end]++
		if e.dbg {
			fmt.Fprintf(os.Stderr, "path %d ended: %s (decisions %d, steps %d, solver %.1fs) %v\n", e.res.Paths, end, len(e.decisions), e.steps, e.S.Stats.Seconds, e.trace)
			e.trace = nil
		}
	}()
	e.call(nil, fn.Pos(), fn, nil)
	if len(e.tasks) > 0 {
		e.runTasks(nil)
	}
	// a concrete input that drives the harness along this path to its end: used
	// to validate the engine against a native run of the same harness
	if len(e.res.Witnesses) < 2 && len(e.res.vars) > 0 {
		if e.S.Check() == solver.Sat {
			// lengths of abstract buffers are minimised so that the native run can allocate them
			e.res.Witnesses = append(e.res.Witnesses, e.minimizeVars(term.True, e.S.Model(e.res.vars), e.opt.MinimizeWords))
		}
	}
}

func (e *Engine) recordPanic(tp targetPanic) {
	msg := "?"
	switch v := tp.v.(type) {
	case Iface:
		switch x := v.V.(type) {
		case string:
			msg = x
		case *Value:
			if x != nil {
				if st, ok := (*x).(Struct); ok && len(st) >= 1 {
					if s, ok := st[0].(string); ok {
						msg = s
					}
				}
			}
		default:
			msg = fmt.Sprintf("%v", v.V)
		}
	default:
		msg = fmt.Sprintf("%v", v)
	}
	label := "panic: " + msg
	if e.replaying() {
		return
	}
	st := e.res.ob("no-panic", true)
	r := e.S.Check()
	if r == solver.Sat {
		m := e.S.Model(e.res.vars)
		st.Violated++
		e.res.Cex = append(e.res.Cex, Cex{Label: label, Model: m, Decisions: append([]uint64(nil), e.decisions...), Kind: "panic"})
	} else if r == solver.Unknown {
		st.Unknown++
	}
}

// Debugf prints when debugging is on.
func (e *Engine) Debugf(f string, a ...interface{}) {
	if e.dbg {
		fmt.Fprintf(os.Stderr, f+"\n", a...)
	}
}

func shortName(s string) string {
	return strings.TrimPrefix(s, "github.com/akalin/gopar/")
}
