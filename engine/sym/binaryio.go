package sym

import (
	"fmt"
	"go/token"
	"go/types"
	"strings"

	"verif/engine/term"
)

// Model of encoding/binary.Read / Write for fixed-size data: the layout is
// computed from go/types, the byte order from the ByteOrder value passed, and
// the reader / writer is driven through the real io.ReadFull / Write method.

func byteOrderLE(e *Engine, v Value) bool {
	i := v.(Iface)
	if i.T == nil {
		e.goPanic("runtime error: nil ByteOrder")
	}
	s := i.T.String()
	switch {
	case strings.HasSuffix(s, "littleEndian"):
		return true
	case strings.HasSuffix(s, "bigEndian"):
		return false
	}
	panic(unsupported("byte order " + s))
}

// binSize returns the encoded size of a value of type t (or -1).
func binSize(t types.Type) int {
	switch u := t.Underlying().(type) {
	case *types.Basic:
		w := typeWidth(t)
		if w == 0 {
			return 1
		}
		if w > 0 {
			return w / 8
		}
	case *types.Array:
		s := binSize(u.Elem())
		if s < 0 {
			return -1
		}
		return s * int(u.Len())
	case *types.Struct:
		n := 0
		for i := 0; i < u.NumFields(); i++ {
			s := binSize(u.Field(i).Type())
			if s < 0 {
				return -1
			}
			n += s
		}
		return n
	}
	return -1
}

func (e *Engine) binDecode(t types.Type, bs []*term.T, le bool, blank bool) (Value, []*term.T) {
	switch u := t.Underlying().(type) {
	case *types.Basic:
		w := typeWidth(t)
		if w == 0 {
			return term.BNot(term.Eq(bs[0], term.Const(8, 0))), bs[1:]
		}
		n := w / 8
		var r *term.T
		for i := 0; i < n; i++ {
			var b *term.T
			if le {
				b = bs[n-1-i]
			} else {
				b = bs[i]
			}
			if r == nil {
				r = b
			} else {
				r = term.Concat(r, b)
			}
		}
		return r, bs[n:]
	case *types.Array:
		a := make(Array, u.Len())
		for i := range a {
			a[i], bs = e.binDecode(u.Elem(), bs, le, false)
		}
		return a, bs
	case *types.Struct:
		s := make(Struct, u.NumFields())
		for i := range s {
			var v Value
			v, bs = e.binDecode(u.Field(i).Type(), bs, le, false)
			if u.Field(i).Name() == "_" {
				v = zero(u.Field(i).Type())
			}
			s[i] = v
		}
		return s, bs
	}
	panic(unsupported("binary decode of " + t.String()))
}

func (e *Engine) binEncode(t types.Type, v Value, le bool, out []*term.T) []*term.T {
	switch u := t.Underlying().(type) {
	case *types.Basic:
		x := asT(v)
		if x.IsBool() {
			return append(out, term.Ite(x, term.Const(8, 1), term.Const(8, 0)))
		}
		n := x.W / 8
		for i := 0; i < n; i++ {
			k := i
			if !le {
				k = n - 1 - i
			}
			out = append(out, term.Extract(x, 8*k+7, 8*k))
		}
		return out
	case *types.Array:
		for _, x := range v.(Array) {
			out = e.binEncode(u.Elem(), x, le, out)
		}
		return out
	case *types.Struct:
		for i, x := range v.(Struct) {
			if u.Field(i).Name() == "_" {
				x = zero(u.Field(i).Type())
			}
			out = e.binEncode(u.Field(i).Type(), x, le, out)
		}
		return out
	}
	panic(unsupported("binary encode of " + t.String()))
}

func binaryRead(e *Engine, fr *frame, pos token.Pos, a []Value) Value {
	le := byteOrderLE(e, a[1])
	data := a[2].(Iface)
	e.note("model:encoding/binary")
	var elemT types.Type
	count := 1
	var target Value
	switch t := data.T.Underlying().(type) {
	case *types.Pointer:
		elemT = t.Elem()
		target = data.V
	case *types.Slice:
		elemT = t.Elem()
		count = e.sliceLen(data.V)
		target = data.V
	default:
		return e.newError(fr, "binary.Read: invalid type "+data.T.String())
	}
	es := binSize(elemT)
	if es < 0 {
		return e.newError(fr, "binary.Read: invalid type "+data.T.String())
	}
	n := es * count
	buf := make([]Value, n)
	for i := range buf {
		buf[i] = cbyte(0)
	}
	res := e.call(fr, pos, e.lookupFunc("io", "ReadFull"), []Value{a[0], buf}).(Tuple)
	if err := res[1].(Iface); err.T != nil {
		return err
	}
	bs := make([]*term.T, n)
	for i := range bs {
		bs[i] = asT(buf[i])
	}
	if _, isPtr := data.T.Underlying().(*types.Pointer); isPtr {
		v, _ := e.binDecode(elemT, bs, le, false)
		e.store(target, v)
	} else {
		for i := 0; i < count; i++ {
			var v Value
			v, bs = e.binDecode(elemT, bs, le, false)
			e.sliceSet(target, i, v)
		}
	}
	return Iface{}
}

func binaryWrite(e *Engine, fr *frame, pos token.Pos, a []Value) Value {
	le := byteOrderLE(e, a[1])
	data := a[2].(Iface)
	e.note("model:encoding/binary")
	var out []*term.T
	switch t := data.T.Underlying().(type) {
	case *types.Pointer:
		if binSize(t.Elem()) < 0 {
			return e.newError(fr, "binary.Write: invalid type "+data.T.String())
		}
		out = e.binEncode(t.Elem(), e.load(data.V, t.Elem()), le, nil)
	case *types.Slice:
		if binSize(t.Elem()) < 0 {
			return e.newError(fr, "binary.Write: invalid type "+data.T.String())
		}
		for _, x := range e.sliceElems(data.V) {
			out = e.binEncode(t.Elem(), x, le, out)
		}
	default:
		if binSize(data.T) < 0 {
			return e.newError(fr, "binary.Write: invalid type "+data.T.String())
		}
		out = e.binEncode(data.T, data.V, le, nil)
	}
	buf := make([]Value, len(out))
	for i, b := range out {
		buf[i] = b
	}
	w := a[0].(Iface)
	if w.T == nil {
		e.goPanic("runtime error: nil Writer")
	}
	var wm *types.Func
	ms := types.NewMethodSet(w.T)
	for i := 0; i < ms.Len(); i++ {
		if ms.At(i).Obj().Name() == "Write" {
			wm = ms.At(i).Obj().(*types.Func)
		}
	}
	if wm == nil {
		panic(unsupported(fmt.Sprintf("binary.Write: %v has no Write", w.T)))
	}
	f := e.prog.LookupMethod(w.T, wm.Pkg(), "Write")
	res := e.call(fr, pos, f, []Value{w.V, buf}).(Tuple)
	return res[1]
}
