package sym

import (
	"fmt"
	"go/constant"
	"go/token"
	"go/types"

	"golang.org/x/tools/go/ssa"

	"verif/engine/term"
)

func constValue(c *ssa.Const) Value {
	if c.Value == nil {
		return zero(c.Type())
	}
	t := c.Type().Underlying()
	if b, ok := t.(*types.Basic); ok {
		switch {
		case b.Info()&types.IsBoolean != 0:
			return cbool(constant.BoolVal(c.Value))
		case b.Info()&types.IsString != 0:
			return constant.StringVal(c.Value)
		case b.Info()&types.IsInteger != 0:
			w := typeWidth(t)
			if v, ok := constant.Int64Val(constant.ToInt(c.Value)); ok {
				return term.Const(w, uint64(v))
			}
			if v, ok := constant.Uint64Val(constant.ToInt(c.Value)); ok {
				return term.Const(w, v)
			}
			panic(unsupported("integer constant out of range"))
		case b.Info()&types.IsFloat != 0, b.Info()&types.IsComplex != 0:
			return Opaque{"float"}
		case b.Kind() == types.UnsafePointer:
			return (*Value)(nil)
		}
	}
	panic(unsupported(fmt.Sprintf("constant %v of type %v", c, c.Type())))
}

// toInt lifts a scalar into the Int sort (for Int-mode arithmetic).
func toInt(t *term.T, typ types.Type) *term.T {
	if t.IsInt() {
		return t
	}
	return term.BV2Int(t, isSigned(typ))
}

func (e *Engine) intRangeCheck(r *term.T, typ types.Type, pos token.Pos) {
	w := typeWidth(typ)
	if w <= 0 {
		return
	}
	var lo, hi *term.T
	if isSigned(typ) {
		lo = term.IntConst(-1 << uint(w-1))
		hi = term.IntConst(1<<uint(w-1) - 1)
	} else {
		lo = term.IntConst(0)
		if w == 64 {
			hi = term.IntConst(1<<63 - 1) // uint64 in Int mode limited to int64 range
		} else {
			hi = term.IntConst(1<<uint(w) - 1)
		}
	}
	e.obligation(term.BAnd(term.ILe(lo, r), term.ILe(r, hi)), "no-overflow@"+e.posStr(pos), true)
}

func (e *Engine) binop(op token.Token, typ types.Type, xv, yv Value, pos token.Pos) Value {
	switch op {
	case token.EQL:
		return e.equalVals(xv, yv)
	case token.NEQ:
		return term.BNot(e.equalVals(xv, yv))
	}
	// strings
	if isStringVal(xv) || isStringVal(yv) {
		return e.stringBinop(op, xv, yv)
	}
	if _, ok := xv.(Opaque); ok {
		return Opaque{"float"}
	}
	x, y := asT(xv), asT(yv)
	signed := isSigned(typ)
	if x.IsBool() {
		switch op {
		case token.AND, token.LAND:
			return term.BAnd(x, y)
		case token.OR, token.LOR:
			return term.BOr(x, y)
		}
		panic(unsupported("bool binop " + op.String()))
	}
	if x.IsInt() || y.IsInt() {
		yt := typ
		if op == token.SHL || op == token.SHR {
			panic(unsupported("shift in Int mode"))
		}
		x, y = toInt(x, typ), toInt(y, yt)
		var r *term.T
		switch op {
		case token.ADD:
			r = term.IAdd(x, y)
		case token.SUB:
			r = term.ISub(x, y)
		case token.MUL:
			r = term.IMul(x, y)
		case token.QUO:
			e.divCheck(term.Eq(y, term.IntConst(0)))
			r = term.IDiv(x, y)
		case token.REM:
			e.divCheck(term.Eq(y, term.IntConst(0)))
			r = term.IMod(x, y)
		case token.LSS:
			return term.ILt(x, y)
		case token.LEQ:
			return term.ILe(x, y)
		case token.GTR:
			return term.ILt(y, x)
		case token.GEQ:
			return term.ILe(y, x)
		default:
			panic(unsupported("Int-mode binop " + op.String()))
		}
		e.intRangeCheck(r, typ, pos)
		return r
	}
	switch op {
	case token.ADD:
		return term.Add(x, y)
	case token.SUB:
		return term.Sub(x, y)
	case token.MUL:
		return term.Mul(x, y)
	case token.QUO:
		e.divCheck(term.Eq(y, term.Const(y.W, 0)))
		if signed {
			return term.SDiv(x, y)
		}
		return term.UDiv(x, y)
	case token.REM:
		e.divCheck(term.Eq(y, term.Const(y.W, 0)))
		if signed {
			return term.SRem(x, y)
		}
		return term.URem(x, y)
	case token.AND:
		return term.And(x, y)
	case token.OR:
		return term.Or(x, y)
	case token.XOR:
		return term.Xor(x, y)
	case token.AND_NOT:
		return term.And(x, term.Not(y))
	case token.SHL:
		return term.Shl(x, e.shiftCount(y))
	case token.SHR:
		if signed {
			return term.AShr(x, e.shiftCount(y))
		}
		return term.LShr(x, e.shiftCount(y))
	case token.LSS:
		if signed {
			return term.Slt(x, y)
		}
		return term.Ult(x, y)
	case token.LEQ:
		if signed {
			return term.Sle(x, y)
		}
		return term.Ule(x, y)
	case token.GTR:
		if signed {
			return term.Slt(y, x)
		}
		return term.Ult(y, x)
	case token.GEQ:
		if signed {
			return term.Sle(y, x)
		}
		return term.Ule(y, x)
	}
	panic(unsupported("binop " + op.String()))
}

// shiftCount optionally concretises symbolic shift amounts.
func (e *Engine) shiftCount(y *term.T) *term.T {
	if y.IsConst() || !e.opt.ForkShifts {
		return y
	}
	v := e.concretize(y, "shift")
	return term.Const(y.W, v)
}

func (e *Engine) divCheck(isZero *term.T) {
	if e.branch(isZero, "div-by-zero") {
		e.goPanic("runtime error: integer divide by zero")
	}
}

func isStringVal(v Value) bool {
	switch v.(type) {
	case string, *SymStr:
		return true
	}
	return false
}

func (e *Engine) stringBinop(op token.Token, xv, yv Value) Value {
	xs, xok := xv.(string)
	ys, yok := yv.(string)
	if xok && yok {
		switch op {
		case token.ADD:
			return xs + ys
		case token.LSS:
			return cbool(xs < ys)
		case token.LEQ:
			return cbool(xs <= ys)
		case token.GTR:
			return cbool(xs > ys)
		case token.GEQ:
			return cbool(xs >= ys)
		}
	}
	if op == token.ADD {
		return mkStr(append(append([]*term.T(nil), strBytes(xv)...), strBytes(yv)...))
	}
	// lexicographic comparison on symbolic bytes
	xb, yb := strBytes(xv), strBytes(yv)
	lt := term.False // x < y
	eq := term.True
	n := len(xb)
	if len(yb) < n {
		n = len(yb)
	}
	for i := 0; i < n; i++ {
		lt = term.BOr(lt, term.BAnd(eq, term.Ult(xb[i], yb[i])))
		eq = term.BAnd(eq, term.Eq(xb[i], yb[i]))
	}
	if len(xb) < len(yb) {
		lt = term.BOr(lt, eq)
	}
	eqAll := term.False
	if len(xb) == len(yb) {
		eqAll = eq
	}
	switch op {
	case token.LSS:
		return lt
	case token.LEQ:
		return term.BOr(lt, eqAll)
	case token.GTR:
		return term.BNot(term.BOr(lt, eqAll))
	case token.GEQ:
		return term.BNot(lt)
	}
	panic(unsupported("string binop " + op.String()))
}

// equalVals returns the Bool term for x == y.
func (e *Engine) equalVals(x, y Value) *term.T {
	switch x := x.(type) {
	case *term.T:
		yt, ok := y.(*term.T)
		if !ok {
			panic(unsupported(fmt.Sprintf("compare scalar with %T", y)))
		}
		if x.IsInt() != yt.IsInt() {
			if x.IsInt() {
				yt = term.BV2Int(yt, true)
			} else {
				x = term.BV2Int(x, true)
			}
		}
		return term.Eq(x, yt)
	case string:
		if ys, ok := y.(string); ok {
			return cbool(x == ys)
		}
		return e.strEq(x, y)
	case *SymStr:
		return e.strEq(x, y)
	case *Value:
		switch y := y.(type) {
		case *Value:
			return cbool(x == y)
		case nil:
			return cbool(x == nil)
		case *SymPtr, *BytePtr, *ROPtr, *TableRef:
			return term.False
		}
	case *SymPtr, *BytePtr, *ROPtr:
		if y == nil {
			return term.False
		}
		if yp, ok := y.(*Value); ok && yp == nil {
			return term.False
		}
		return cbool(x == y)
	case *TableRef:
		return term.False
	case []Value:
		// only comparison with nil is legal
		return cbool(x == nil && isNilVal(y) || isNilVal(y) && x == nil)
	case ViewSlice, WordView, AbsSlice:
		return term.False
	case *Map:
		ym, _ := y.(*Map)
		return cbool(x == ym)
	case *Chan:
		return cbool(x == nil && isNilVal(y))
	case *ssa.Function:
		return cbool(x == nil && isNilVal(y))
	case *Closure:
		return term.False
	case *ssa.Builtin:
		return term.False
	case Iface:
		yi, ok := y.(Iface)
		if !ok {
			panic(unsupported(fmt.Sprintf("compare iface with %T", y)))
		}
		if x.T == nil || yi.T == nil {
			return cbool(x.T == nil && yi.T == nil)
		}
		if !types.Identical(x.T, yi.T) {
			return term.False
		}
		return e.equalVals(x.V, yi.V)
	case Struct:
		ys := y.(Struct)
		r := term.True
		for i := range x {
			r = term.BAnd(r, e.equalVals(x[i], ys[i]))
		}
		return r
	case Array:
		ya := y.(Array)
		r := term.True
		for i := range x {
			r = term.BAnd(r, e.equalVals(x[i], ya[i]))
		}
		return r
	case nil:
		return cbool(isNilVal(y))
	case Opaque:
		panic(unsupported("comparison of unmodelled value (" + x.What + ")"))
	}
	panic(unsupported(fmt.Sprintf("equality on %T vs %T", x, y)))
}

func isNilVal(v Value) bool {
	switch v := v.(type) {
	case nil:
		return true
	case *Value:
		return v == nil
	case []Value:
		return v == nil
	case *Map:
		return v == nil
	case *Chan:
		return v == nil
	case *ssa.Function:
		return v == nil
	case Iface:
		return v.T == nil
	}
	return false
}

func (e *Engine) strEq(x, y Value) *term.T {
	xb, yb := strBytes(x), strBytes(y)
	if len(xb) != len(yb) {
		return term.False
	}
	r := term.True
	for i := range xb {
		r = term.BAnd(r, term.Eq(xb[i], yb[i]))
	}
	return r
}

func (e *Engine) unop(instr *ssa.UnOp, xv Value) Value {
	switch instr.Op {
	case token.MUL: // load
		return e.load(xv, deref(instr.X.Type()))
	case token.NOT:
		return term.BNot(asT(xv))
	case token.SUB:
		x := asT(xv)
		if x.IsInt() {
			r := term.ISub(term.IntConst(0), x)
			e.intRangeCheck(r, instr.Type(), instr.Pos())
			return r
		}
		return term.Neg(x)
	case token.XOR:
		return term.Not(asT(xv))
	case token.ARROW:
		panic(unsupported("channel receive"))
	}
	panic(unsupported("unop " + instr.Op.String()))
}

func (e *Engine) conv(dst, src types.Type, xv Value, pos token.Pos) Value {
	ud, us := dst.Underlying(), src.Underlying()
	switch us := us.(type) {
	case *types.Pointer, *types.Signature:
		return xv // to unsafe.Pointer or same
	case *types.Slice:
		// []byte / []rune -> string
		if db, ok := ud.(*types.Basic); ok && db.Info()&types.IsString != 0 {
			eb, _ := us.Elem().Underlying().(*types.Basic)
			if eb != nil && eb.Kind() == types.Uint8 {
				n := e.sliceLen(xv)
				bs := make([]*term.T, n)
				for i := 0; i < n; i++ {
					bs[i] = asT(e.sliceGet(xv, i))
				}
				return mkStr(bs)
			}
			if eb != nil && eb.Kind() == types.Int32 {
				n := e.sliceLen(xv)
				rs := make([]rune, n)
				for i := 0; i < n; i++ {
					t := asT(e.sliceGet(xv, i))
					if !t.IsConst() {
						panic(unsupported("string(symbolic []rune)"))
					}
					rs[i] = rune(t.Val)
				}
				return string(rs)
			}
		}
		if _, ok := ud.(*types.Slice); ok {
			return xv
		}
	case *types.Basic:
		if us.Kind() == types.UnsafePointer {
			return xv
		}
		if us.Info()&types.IsString != 0 {
			if ds, ok := ud.(*types.Slice); ok {
				eb, _ := ds.Elem().Underlying().(*types.Basic)
				if eb != nil && eb.Kind() == types.Uint8 {
					bs := strBytes(xv)
					out := make([]Value, len(bs))
					for i, b := range bs {
						out[i] = b
					}
					return out
				}
				if eb != nil && eb.Kind() == types.Int32 {
					s, ok := xv.(string)
					if !ok {
						panic(unsupported("[]rune(symbolic string)"))
					}
					var out []Value
					for _, r := range s {
						out = append(out, term.Const(32, uint64(r)))
					}
					if out == nil {
						out = []Value{}
					}
					return out
				}
			}
			if db, ok := ud.(*types.Basic); ok && db.Info()&types.IsString != 0 {
				return xv
			}
		}
		if us.Info()&types.IsInteger != 0 {
			db, ok := ud.(*types.Basic)
			if ok && db.Info()&types.IsString != 0 {
				t := asT(xv)
				if !t.IsConst() {
					panic(unsupported("string(symbolic rune)"))
				}
				return string(rune(t.SVal()))
			}
			if ok && db.Info()&types.IsInteger != 0 {
				x := asT(xv)
				if x.IsInt() {
					e.intRangeCheck(x, dst, pos)
					return x
				}
				if e.opt.IntMode && db.Kind() == types.Int {
					return toInt(x, src)
				}
				dw := typeWidth(dst)
				switch {
				case dw == x.W:
					return x
				case dw < x.W:
					return term.Extract(x, dw-1, 0)
				case isSigned(src):
					return term.SExt(x, dw)
				default:
					return term.ZExt(x, dw)
				}
			}
			if ok && (db.Info()&types.IsFloat != 0) {
				return Opaque{"float"}
			}
			if ok && db.Kind() == types.UnsafePointer {
				return xv
			}
		}
		if us.Info()&types.IsFloat != 0 {
			return Opaque{"float"}
		}
	}
	panic(unsupported(fmt.Sprintf("conversion %v -> %v", src, dst)))
}
