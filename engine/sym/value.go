// Package sym is a symbolic interpreter for go/ssa.  Scalars are terms
// (verif/engine/term); aggregates and the heap are ordinary Go data, and path
// forking is done by re-execution with a recorded decision prefix.
package sym

import (
	"fmt"
	"go/types"
	"strings"

	"golang.org/x/tools/go/ssa"

	"verif/engine/term"
)

type Value interface{}

type (
	Struct []Value
	Array  []Value
	Tuple  []Value
	// Slice values are plain Go []Value (nil-ness preserved).

	// Iface is an interface value; T == nil means nil interface.
	Iface struct {
		T types.Type
		V Value
	}
	Closure struct {
		Fn  *ssa.Function
		Env []Value
	}
	// SymPtr addresses Base[Idx] for a symbolic, already bounds-checked Idx.
	SymPtr struct {
		Base []Value
		Idx  *term.T
		Name string // non-empty: named global table abstracted by a UF when large
	}
	// BytePtr addresses byte Off of a little-endian view over 16-bit cells.
	BytePtr struct {
		Base []Value
		Off  int
	}
	// ViewSlice is a []byte view over []uint16 cells (unsafe cast in gf2p16).
	ViewSlice struct {
		Base          []Value
		Off, Len, Cap int // bytes
	}
	// WordView is a []uint16 view over byte cells.
	WordView struct {
		Base          []Value
		Off, Len, Cap int // words; Off in bytes
	}
	// AbsSlice is a contentless slice with symbolic bounds (Int-sorted terms).
	AbsSlice struct {
		ID            string
		Off, Len, Cap *term.T
	}
	// ROPtr is a read-only computed location.
	ROPtr struct{ V Value }
	// TablePtr is an element of the abstracted multiplication tables: loads
	// return the contract value, stores (table construction) must store it.
	TablePtr struct {
		V     *term.T
		Label string
		C     *term.T // index of the table entry
		Key   string  // field and concrete inner index ("" when the inner index is symbolic)
	}
	// TableRef stands for &mulTable[c] / &mulTable64[c] and their fields.
	TableRef struct {
		Kind  string // "mulTable" | "mulTable64"
		C     *term.T
		Field int // -1: whole entry
	}
	// SymStr is a string with concrete length and symbolic bytes.
	SymStr struct{ B []*term.T }
	// Opaque is a value we do not model (e.g. formatted text of symbolic data).
	Opaque struct{ What string }
	// MapIter / range state
	Iter interface{ next() Value }
)

func (c *Closure) String() string { return "closure:" + c.Fn.String() }

func typeWidth(t types.Type) int {
	switch b := t.Underlying().(type) {
	case *types.Basic:
		switch b.Kind() {
		case types.Bool, types.UntypedBool:
			return 0
		case types.Int8, types.Uint8:
			return 8
		case types.Int16, types.Uint16:
			return 16
		case types.Int32, types.Uint32, types.UntypedRune:
			return 32
		case types.Int, types.Uint, types.Int64, types.Uint64, types.Uintptr, types.UntypedInt:
			return 64
		}
	}
	return -2
}

func isSigned(t types.Type) bool {
	if b, ok := t.Underlying().(*types.Basic); ok {
		return b.Info()&types.IsInteger != 0 && b.Info()&types.IsUnsigned == 0
	}
	return false
}

func isIntType(t types.Type) bool {
	b, ok := t.Underlying().(*types.Basic)
	return ok && b.Info()&types.IsInteger != 0
}

func deref(t types.Type) types.Type {
	if p, ok := t.Underlying().(*types.Pointer); ok {
		return p.Elem()
	}
	panic(fmt.Sprintf("deref of non-pointer %v", t))
}

// zero returns the zero value of type t.
func zero(t types.Type) Value {
	switch u := t.Underlying().(type) {
	case *types.Basic:
		if u.Kind() == types.String || u.Kind() == types.UntypedString {
			return ""
		}
		if u.Kind() == types.UnsafePointer {
			return (*Value)(nil)
		}
		if u.Kind() == types.UntypedNil {
			return nil
		}
		if u.Info()&types.IsFloat != 0 || u.Info()&types.IsComplex != 0 {
			return Opaque{"float"}
		}
		w := typeWidth(t)
		if w == 0 {
			return term.False
		}
		if w < 0 {
			panic(unsupported("zero of basic type " + t.String()))
		}
		return term.Const(w, 0)
	case *types.Pointer:
		return (*Value)(nil)
	case *types.Array:
		n := int(u.Len())
		if n > 1<<20 {
			panic(unsupported(fmt.Sprintf("array of %d elements", n)))
		}
		a := make(Array, n)
		for i := range a {
			a[i] = zero(u.Elem())
		}
		return a
	case *types.Struct:
		s := make(Struct, u.NumFields())
		for i := range s {
			s[i] = zero(u.Field(i).Type())
		}
		return s
	case *types.Tuple:
		if u.Len() == 1 {
			return zero(u.At(0).Type())
		}
		s := make(Tuple, u.Len())
		for i := range s {
			s[i] = zero(u.At(i).Type())
		}
		return s
	case *types.Slice:
		return []Value(nil)
	case *types.Map:
		return (*Map)(nil)
	case *types.Interface:
		return Iface{}
	case *types.Signature:
		return (*ssa.Function)(nil)
	case *types.Chan:
		return (*Chan)(nil)
	}
	panic(unsupported("zero of type " + t.String()))
}

type Chan struct{ buf []Value }

// copyVal deep-copies aggregates (arrays and structs have value semantics).
func copyVal(v Value) Value {
	switch v := v.(type) {
	case Struct:
		c := make(Struct, len(v))
		for i, x := range v {
			c[i] = copyVal(x)
		}
		return c
	case Array:
		c := make(Array, len(v))
		for i, x := range v {
			c[i] = copyVal(x)
		}
		return c
	case Tuple:
		c := make(Tuple, len(v))
		for i, x := range v {
			c[i] = copyVal(x)
		}
		return c
	}
	return v
}

type unsupported string

func (u unsupported) Error() string { return "unsupported: " + string(u) }

// isConcrete reports whether v contains no symbolic scalar.
func isConcrete(v Value) bool {
	switch v := v.(type) {
	case *term.T:
		return v.IsConst()
	case Struct:
		for _, x := range v {
			if !isConcrete(x) {
				return false
			}
		}
	case Array:
		for _, x := range v {
			if !isConcrete(x) {
				return false
			}
		}
	case Iface:
		return isConcrete(v.V)
	case *SymStr:
		return false
	}
	return true
}

// keyString returns a canonical string for a concrete hashable value.
func keyString(v Value) string {
	var sb strings.Builder
	writeKey(&sb, v)
	return sb.String()
}

func writeKey(sb *strings.Builder, v Value) {
	switch v := v.(type) {
	case *term.T:
		fmt.Fprintf(sb, "%d:%x;", v.W, v.Val)
	case string:
		fmt.Fprintf(sb, "s%q;", v)
	case Struct:
		sb.WriteString("{")
		for _, x := range v {
			writeKey(sb, x)
		}
		sb.WriteString("}")
	case Array:
		sb.WriteString("[")
		for _, x := range v {
			writeKey(sb, x)
		}
		sb.WriteString("]")
	case Iface:
		if v.T == nil {
			sb.WriteString("nilif;")
		} else {
			fmt.Fprintf(sb, "if(%s)", v.T.String())
			writeKey(sb, v.V)
		}
	case *Value:
		fmt.Fprintf(sb, "p%p;", v)
	default:
		fmt.Fprintf(sb, "?%T%v;", v, v)
	}
}

// strBytes returns the bytes of a (possibly symbolic) string as terms.
func strBytes(v Value) []*term.T {
	switch s := v.(type) {
	case string:
		out := make([]*term.T, len(s))
		for i := 0; i < len(s); i++ {
			out[i] = term.Const(8, uint64(s[i]))
		}
		return out
	case *SymStr:
		return s.B
	}
	panic(unsupported(fmt.Sprintf("string value %T", v)))
}

// mkStr builds a string value from byte terms (concrete if all constant).
func mkStr(bs []*term.T) Value {
	conc := true
	for _, b := range bs {
		if !b.IsConst() {
			conc = false
			break
		}
	}
	if conc {
		buf := make([]byte, len(bs))
		for i, b := range bs {
			buf[i] = byte(b.Val)
		}
		return string(buf)
	}
	return &SymStr{B: append([]*term.T(nil), bs...)}
}

func strLen(v Value) int {
	switch s := v.(type) {
	case string:
		return len(s)
	case *SymStr:
		return len(s.B)
	}
	panic(unsupported(fmt.Sprintf("len of string value %T", v)))
}

func cint(n int) *term.T   { return term.Const(64, uint64(n)) }
func cbool(b bool) *term.T { return term.Bool(b) }
func cbyte(b byte) *term.T { return term.Const(8, uint64(b)) }
func asT(v Value) *term.T {
	t, ok := v.(*term.T)
	if !ok {
		panic(unsupported(fmt.Sprintf("expected scalar, got %T", v)))
	}
	return t
}
