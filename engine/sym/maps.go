package sym

import (
	"go/types"

	"verif/engine/term"
)

// Map is an insertion-ordered map.  Concrete keys are found through an index;
// keys containing symbolic scalars are matched by forking on key equality.
type Map struct {
	keys    []Value
	vals    []Value
	deleted []bool
	index   map[string]int
	symKeys bool
	n       int
}

func newMap() *Map { return &Map{index: map[string]int{}} }

func (e *Engine) mapFind(m *Map, k Value) int {
	if m == nil {
		return -1
	}
	if !m.symKeys && isConcrete(k) {
		if i, ok := m.index[keyString(k)]; ok && !m.deleted[i] {
			return i
		}
		return -1
	}
	// symbolic matching: first entry whose key equals k on this path
	for i := range m.keys {
		if m.deleted[i] {
			continue
		}
		c := e.equalVals(m.keys[i], k)
		if c.IsFalse() {
			continue
		}
		if c.IsTrue() || e.branch(c, "map-key") {
			return i
		}
	}
	return -1
}

func (e *Engine) mapLookup(m *Map, k Value, elem types.Type) (Value, bool) {
	i := e.mapFind(m, k)
	if i < 0 {
		return zero(elem), false
	}
	return copyVal(m.vals[i]), true
}

func (e *Engine) mapUpdate(m *Map, k, v Value) {
	if m == nil {
		e.goPanic("assignment to entry in nil map")
	}
	i := e.mapFind(m, k)
	if i >= 0 {
		m.vals[i] = copyVal(v)
		return
	}
	conc := isConcrete(k)
	if !conc {
		m.symKeys = true
	}
	m.keys = append(m.keys, copyVal(k))
	m.vals = append(m.vals, copyVal(v))
	m.deleted = append(m.deleted, false)
	if conc {
		m.index[keyString(k)] = len(m.keys) - 1
	}
	m.n++
}

func (e *Engine) mapDelete(m *Map, k Value) {
	i := e.mapFind(m, k)
	if i >= 0 {
		m.deleted[i] = true
		if isConcrete(k) {
			delete(m.index, keyString(k))
		}
		m.n--
	}
}

func (m *Map) length() int {
	if m == nil {
		return 0
	}
	return m.n
}

type mapIter struct {
	m     *Map
	order []int
	pos   int
	kt    types.Type
	vt    types.Type
}

func (it *mapIter) next() Value {
	for it.pos < len(it.order) {
		i := it.order[it.pos]
		it.pos++
		if i < len(it.m.keys) && !it.m.deleted[i] {
			return Tuple{term.True, copyVal(it.m.keys[i]), copyVal(it.m.vals[i])}
		}
	}
	return Tuple{term.False, zero(it.kt), zero(it.vt)}
}

type strIter struct {
	s   string
	pos int
}

func (it *strIter) next() Value {
	if it.pos >= len(it.s) {
		return Tuple{term.False, cint(0), term.Const(32, 0)}
	}
	for i, r := range it.s[it.pos:] {
		_ = i
		p := it.pos
		n := len(string(r))
		if r == 0xFFFD {
			// invalid encoding consumes one byte (or a real U+FFFD: 3 bytes)
			if !(len(it.s) >= p+3 && it.s[p:p+3] == "�") {
				n = 1
			}
		}
		it.pos += n
		return Tuple{term.True, cint(p), term.Const(32, uint64(r))}
	}
	return Tuple{term.False, cint(0), term.Const(32, 0)}
}
