package sym

// A model of regular files below the os package, for the code under the
// fileIO seam (defaultFileIO.ReadFile / WriteFile): a table path -> bytes,
// POSIX open-flag semantics (O_CREATE, O_EXCL, O_TRUNC, O_APPEND), handles with
// an offset.  Paths and flags must be concrete; contents are terms.

import (
	"fmt"
	"go/token"
	"strings"

	"verif/engine/term"
)

type fileHandle struct {
	path        string
	off         int
	app, rd, wr bool
	closed      bool
}

const (
	oWRONLY = 0x1
	oRDWR   = 0x2
	oCREATE = 0x40
	oEXCL   = 0x80
	oTRUNC  = 0x200
	oAPPEND = 0x400
)

func (e *Engine) existErr() Value {
	for _, pn := range []string{"io/fs", "internal/oserror"} {
		if pkg := e.prog.ImportedPackage(pn); pkg != nil {
			if g := pkg.Var("ErrExist"); g != nil {
				return *e.global(g)
			}
		}
	}
	panic(unsupported("fs.ErrExist not available"))
}

func concPath(v Value, what string) string {
	p, ok := v.(string)
	if !ok {
		panic(unsupported(what + " of a symbolic path"))
	}
	return p
}

func (e *Engine) openFile(p string, flag int) Value {
	e.note("model:regular-files")
	if e.files == nil {
		e.files = map[string][]Value{}
	}
	_, exists := e.files[p]
	if !exists {
		if flag&oCREATE == 0 {
			return Tuple{(*Value)(nil), e.notExistErr()}
		}
		e.files[p] = []Value{}
	} else if flag&oCREATE != 0 && flag&oEXCL != 0 {
		return Tuple{(*Value)(nil), e.existErr()}
	}
	acc := flag & 3
	h := &fileHandle{path: p, rd: acc == 0 || acc == oRDWR, wr: acc == oWRONLY || acc == oRDWR, app: flag&oAPPEND != 0}
	if flag&oTRUNC != 0 && h.wr {
		e.files[p] = []Value{}
	}
	cell := new(Value)
	*cell = h
	return Tuple{cell, Iface{}}
}

func handleOf(v Value, what string) *fileHandle {
	c, ok := v.(*Value)
	if !ok || c == nil {
		panic(unsupported(what + " on a nil *os.File"))
	}
	h, ok := (*c).(*fileHandle)
	if !ok {
		panic(unsupported(what + " on an unmodelled file"))
	}
	return h
}

func (e *Engine) closedErr() Value {
	if pkg := e.prog.ImportedPackage("io/fs"); pkg != nil {
		if g := pkg.Var("ErrClosed"); g != nil {
			return *e.global(g)
		}
	}
	panic(unsupported("fs.ErrClosed not available"))
}

func (e *Engine) fileWrite(h *fileHandle, data []Value, at int) Value {
	if h.closed || !h.wr {
		return Tuple{term.Const(64, 0), e.closedErr()}
	}
	cur := e.files[h.path]
	if h.app {
		at = len(cur)
	}
	end := at + len(data)
	out := append([]Value(nil), cur...)
	for len(out) < end {
		out = append(out, term.Const(8, 0))
	}
	copy(out[at:end], data)
	e.files[h.path] = out
	return Tuple{term.Const(64, uint64(len(data))), Iface{}}
}

func init() {
	intInt := func(v Value, what string) int {
		t := asT(v)
		if !t.IsConst() {
			panic(unsupported(what + ": symbolic integer argument"))
		}
		return int(int64(t.Val))
	}
	intrinsics["os.OpenFile"] = func(e *Engine, _ *frame, _ token.Pos, a []Value) Value {
		return e.openFile(concPath(a[0], "os.OpenFile"), intInt(a[1], "os.OpenFile flags"))
	}
	intrinsics["os.Create"] = func(e *Engine, _ *frame, _ token.Pos, a []Value) Value {
		return e.openFile(concPath(a[0], "os.Create"), oRDWR|oCREATE|oTRUNC)
	}
	prevOpen := intrinsics["os.Open"]
	intrinsics["os.Open"] = func(e *Engine, fr *frame, pos token.Pos, a []Value) Value {
		if p, ok := a[0].(string); ok {
			if _, isFile := e.files[p]; isFile {
				return e.openFile(p, 0)
			}
		}
		return prevOpen(e, fr, pos, a)
	}
	readFile := func(e *Engine, _ *frame, _ token.Pos, a []Value) Value {
		e.note("model:regular-files")
		p := concPath(a[0], "os.ReadFile")
		data, ok := e.files[p]
		if !ok {
			return Tuple{[]Value(nil), e.notExistErr()}
		}
		return Tuple{append([]Value{}, data...), Iface{}}
	}
	intrinsics["os.ReadFile"] = readFile
	intrinsics["io/ioutil.ReadFile"] = readFile
	intrinsics["(*os.File).Write"] = func(e *Engine, _ *frame, _ token.Pos, a []Value) Value {
		h := handleOf(a[0], "Write")
		data := e.sliceElems(a[1])
		r := e.fileWrite(h, data, h.off)
		if !h.app {
			h.off += len(data)
		} else {
			h.off = len(e.files[h.path])
		}
		return r
	}
	intrinsics["(*os.File).WriteString"] = func(e *Engine, _ *frame, _ token.Pos, a []Value) Value {
		h := handleOf(a[0], "WriteString")
		data := e.sliceElems(a[1])
		r := e.fileWrite(h, data, h.off)
		h.off += len(data)
		return r
	}
	intrinsics["(*os.File).WriteAt"] = func(e *Engine, _ *frame, _ token.Pos, a []Value) Value {
		h := handleOf(a[0], "WriteAt")
		return e.fileWrite(h, e.sliceElems(a[1]), intInt(a[2], "WriteAt offset"))
	}
	intrinsics["(*os.File).Sync"] = func(e *Engine, _ *frame, _ token.Pos, a []Value) Value {
		handleOf(a[0], "Sync")
		return Iface{}
	}
	prevClose := intrinsics["(*os.File).Close"]
	intrinsics["(*os.File).Close"] = func(e *Engine, fr *frame, pos token.Pos, a []Value) Value {
		if c, ok := a[0].(*Value); ok && c != nil {
			if h, ok := (*c).(*fileHandle); ok {
				if h.closed {
					return e.closedErr()
				}
				h.closed = true
				return Iface{}
			}
		}
		return prevClose(e, fr, pos, a)
	}
	intrinsics["(*os.File).Truncate"] = func(e *Engine, _ *frame, _ token.Pos, a []Value) Value {
		h := handleOf(a[0], "Truncate")
		n := intInt(a[1], "Truncate size")
		cur := append([]Value(nil), e.files[h.path]...)
		for len(cur) < n {
			cur = append(cur, term.Const(8, 0))
		}
		e.files[h.path] = cur[:n]
		return Iface{}
	}
	intrinsics["(*os.File).Seek"] = func(e *Engine, _ *frame, _ token.Pos, a []Value) Value {
		h := handleOf(a[0], "Seek")
		off, whence := intInt(a[1], "Seek offset"), intInt(a[2], "Seek whence")
		switch whence {
		case 0:
			h.off = off
		case 1:
			h.off += off
		case 2:
			h.off = len(e.files[h.path]) + off
		}
		return Tuple{term.Const(64, uint64(h.off)), Iface{}}
	}
	intrinsics["(*os.File).Name"] = func(e *Engine, _ *frame, _ token.Pos, a []Value) Value {
		return handleOf(a[0], "Name").path
	}
	intrinsics["os.Remove"] = func(e *Engine, _ *frame, _ token.Pos, a []Value) Value {
		p := concPath(a[0], "os.Remove")
		if _, ok := e.files[p]; !ok {
			return e.notExistErr()
		}
		delete(e.files, p)
		return Iface{}
	}
	intrinsics["os.Rename"] = func(e *Engine, _ *frame, _ token.Pos, a []Value) Value {
		from, to := concPath(a[0], "os.Rename"), concPath(a[1], "os.Rename")
		d, ok := e.files[from]
		if !ok {
			return e.notExistErr()
		}
		delete(e.files, from)
		e.files[to] = d
		return Iface{}
	}
	intrinsics["os.Truncate"] = func(e *Engine, _ *frame, _ token.Pos, a []Value) Value {
		p := concPath(a[0], "os.Truncate")
		cur, ok := e.files[p]
		if !ok {
			return e.notExistErr()
		}
		n := intInt(a[1], "Truncate size")
		cur = append([]Value(nil), cur...)
		for len(cur) < n {
			cur = append(cur, term.Const(8, 0))
		}
		e.files[p] = cur[:n]
		return Iface{}
	}
	// harness side
	intrinsics[rtPkg+"SetFile"] = func(e *Engine, _ *frame, _ token.Pos, a []Value) Value {
		if e.files == nil {
			e.files = map[string][]Value{}
		}
		e.files[concPath(a[0], "SetFile")] = append([]Value{}, e.sliceElems(a[1])...)
		return nil
	}
	intrinsics[rtPkg+"RemoveFile"] = func(e *Engine, _ *frame, _ token.Pos, a []Value) Value {
		delete(e.files, concPath(a[0], "RemoveFile"))
		return nil
	}
	intrinsics[rtPkg+"FileContents"] = func(e *Engine, _ *frame, _ token.Pos, a []Value) Value {
		d, ok := e.files[concPath(a[0], "FileContents")]
		if !ok {
			return Tuple{[]Value(nil), term.False}
		}
		return Tuple{append([]Value{}, d...), term.True}
	}
	intrinsics[rtPkg+"FileNames"] = func(e *Engine, _ *frame, _ token.Pos, a []Value) Value {
		prefix := concPath(a[0], "FileNames")
		var out []Value
		for p := range e.files {
			if strings.HasPrefix(p, prefix) {
				out = append(out, p)
			}
		}
		// deterministic order
		for i := range out {
			for j := i + 1; j < len(out); j++ {
				if out[j].(string) < out[i].(string) {
					out[i], out[j] = out[j], out[i]
				}
			}
		}
		return out
	}
	_ = fmt.Sprint
}

// strings.Builder as intrinsics over its buf field (the real methods go
// through unsafe string construction and escape-analysis helpers).
func init() {
	bufOf := func(v Value) (Struct, []Value) {
		p, ok := v.(*Value)
		if !ok || p == nil {
			panic(unsupported("strings.Builder method on an unexpected receiver"))
		}
		st, ok := (*p).(Struct)
		if !ok || len(st) != 2 {
			panic(unsupported("strings.Builder layout"))
		}
		buf, _ := st[1].([]Value)
		return st, buf
	}
	appendTo := func(e *Engine, recv Value, elems []Value) {
		st, buf := bufOf(recv)
		nb := make([]Value, 0, len(buf)+len(elems))
		nb = append(nb, buf...)
		nb = append(nb, elems...)
		st[1] = nb
	}
	intrinsics["(*strings.Builder).WriteString"] = func(e *Engine, _ *frame, _ token.Pos, a []Value) Value {
		el := e.sliceElems(a[1])
		appendTo(e, a[0], el)
		return Tuple{term.Const(64, uint64(len(el))), Iface{}}
	}
	intrinsics["(*strings.Builder).Write"] = intrinsics["(*strings.Builder).WriteString"]
	intrinsics["(*strings.Builder).WriteByte"] = func(e *Engine, _ *frame, _ token.Pos, a []Value) Value {
		appendTo(e, a[0], []Value{a[1]})
		return Iface{}
	}
	intrinsics["(*strings.Builder).WriteRune"] = func(e *Engine, _ *frame, _ token.Pos, a []Value) Value {
		r := asT(a[1])
		if !r.IsConst() {
			panic(unsupported("strings.Builder.WriteRune of a symbolic rune"))
		}
		s := string(rune(r.Val))
		appendTo(e, a[0], e.sliceElems(s))
		return Tuple{term.Const(64, uint64(len(s))), Iface{}}
	}
	intrinsics["(*strings.Builder).Grow"] = func(e *Engine, _ *frame, _ token.Pos, a []Value) Value { return nil }
	intrinsics["(*strings.Builder).Reset"] = func(e *Engine, _ *frame, _ token.Pos, a []Value) Value {
		st, _ := bufOf(a[0])
		st[1] = []Value(nil)
		return nil
	}
	intrinsics["(*strings.Builder).Len"] = func(e *Engine, _ *frame, _ token.Pos, a []Value) Value {
		_, buf := bufOf(a[0])
		return term.Const(64, uint64(len(buf)))
	}
	intrinsics["(*strings.Builder).Cap"] = intrinsics["(*strings.Builder).Len"]
	intrinsics["(*strings.Builder).String"] = func(e *Engine, _ *frame, _ token.Pos, a []Value) Value {
		_, buf := bufOf(a[0])
		bs := make([]*term.T, len(buf))
		for i, b := range buf {
			bs[i] = asT(b)
		}
		return mkStr(bs)
	}
	intrinsics["internal/abi.NoEscape"] = func(e *Engine, _ *frame, _ token.Pos, a []Value) Value { return a[0] }
}

// internal/bytealg.Compare (assembly): lexicographic comparison as a term.
func init() {
	cmp := func(e *Engine, _ *frame, _ token.Pos, a []Value) Value {
		x, y := e.sliceElems(a[0]), e.sliceElems(a[1])
		n := len(x)
		if len(y) < n {
			n = len(y)
		}
		var tail uint64
		switch {
		case len(x) < len(y):
			tail = ^uint64(0)
		case len(x) > len(y):
			tail = 1
		}
		res := term.Const(64, tail)
		for i := n - 1; i >= 0; i-- {
			xi, yi := asT(x[i]), asT(y[i])
			res = term.Ite(term.Eq(xi, yi), res, term.Ite(term.Ult(xi, yi), term.Const(64, ^uint64(0)), term.Const(64, 1)))
		}
		return res
	}
	intrinsics["internal/bytealg.Compare"] = cmp
	intrinsics["internal/bytealg.CompareString"] = cmp
}

// sync.Pool: a last-in-first-out free list per pool (Get returns what was Put
// last, else calls New), so that state left in pooled objects is seen by the
// next user, as it can be in a real run.
func init() {
	poolOf := func(e *Engine, recv Value) (*Value, Struct) {
		p, ok := recv.(*Value)
		if !ok || p == nil {
			panic(unsupported("sync.Pool method on an unexpected receiver"))
		}
		st, ok := (*p).(Struct)
		if !ok || len(st) == 0 {
			panic(unsupported("sync.Pool layout"))
		}
		if e.pools == nil {
			e.pools = map[*Value][]Value{}
		}
		return p, st
	}
	intrinsics["(*sync.Pool).Get"] = func(e *Engine, fr *frame, pos token.Pos, a []Value) Value {
		p, st := poolOf(e, a[0])
		if free := e.pools[p]; len(free) > 0 {
			v := free[len(free)-1]
			e.pools[p] = free[:len(free)-1]
			return v
		}
		newFn := st[len(st)-1]
		if isNilVal(newFn) {
			return Iface{}
		}
		return e.call(fr, pos, newFn, nil)
	}
	intrinsics["(*sync.Pool).Put"] = func(e *Engine, _ *frame, _ token.Pos, a []Value) Value {
		p, _ := poolOf(e, a[0])
		e.pools[p] = append(e.pools[p], a[1])
		return nil
	}
}
