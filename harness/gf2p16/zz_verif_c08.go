package gf2p16

// C08 (GF(2^16) part).  The log/exp tables are taken from the real package
// initialiser (native dump, re-made on every run).  Three layers:
//
//  table lemma   expTable[(p+1) mod 65535] = 3 * expTable[p] in the field
//                (solver, symbolic p inside each 256-entry chunk), expTable[0]=1,
//                and logTable[expTable[p]-1] = p (constant folding over the dump);
//                by induction expTable[p] = 3^p, i.e. exp is a homomorphism H.
//  operations    Times / Div / Inverse / Pow with the tables abstracted to
//                uninterpreted functions constrained only by the instances of H
//                and log-inverts-exp at the operands: the index arithmetic
//                (modulus, offsets, overflow, zero cases) is what is decided.
//  spec          rt.GFMul = reduced carry-less product mod 0x1100B (SMT-LIB).

import rt "github.com/akalin/gopar/internal/zzverifrt"

func init() {
	rt.Register("C08_table_step_0", VerifHarness_C08_table_step_0)
	rt.Register("C08_table_step_1", VerifHarness_C08_table_step_1)
	rt.Register("C08_table_step_2", VerifHarness_C08_table_step_2)
	rt.Register("C08_table_step_3", VerifHarness_C08_table_step_3)
	rt.Register("C08_table_inverse", VerifHarness_C08_table_inverse)
	rt.Register("C08_T_times", VerifHarness_C08_T_times)
	rt.Register("C08_T_div", VerifHarness_C08_T_div)
	rt.Register("C08_T_inverse", VerifHarness_C08_T_inverse)
	rt.Register("C08_T_pow", VerifHarness_C08_T_pow)
	rt.Register("C08_mod_lemmas", VerifHarness_C08_mod_lemmas)
	rt.Register("C08_T_plusminus", VerifHarness_C08_T_plusminus)
}

const verifM = order - 1 // 65535

// elem returns a non-zero field element given by its logarithm: the solver
// chooses the logarithm a, t = exp(a) on the abstracted table, and the
// instance of "log inverts exp" at t is assumed.  Natively t is the real
// exp(a), so a counterexample (a, ...) replays against the real tables.
func elem(name string) (T, int) {
	a := int(rt.U16(name))
	rt.Assume(a < verifM)
	t := expTable[a]
	rt.Assume(t != 0)
	rt.Assume(int(logTable[t-1]) == a)
	// anchors of the abstracted tables (checked on the real ones by the table
	// lemma): exp(0) = 1 and log(1) = 0, so that t = 1 exactly when a = 0
	// (the tables are read at a still unconstrained index, so that the reads
	// are applications of the abstract tables, and the index is fixed afterwards)
	z := rt.Int("zero")
	rt.Assume(z >= 0)
	rt.Assume(z < verifM)
	e0, l0 := expTable[z], logTable[z]
	rt.Assume(z == 0)
	rt.Assume(e0 == 1)
	rt.Assume(l0 == 0)
	return t, a
}

// homInstance assumes the instance of H at (a, b): exp((a+b) mod M) = exp(a)*exp(b).
func homInstance(a, b int) {
	rt.Assume(uint16(expTable[(a+b)%verifM]) == rt.GFMul(uint16(expTable[a]), uint16(expTable[b])))
}

func VerifHarness_C08_table_step_0() { tableStep(0) }
func VerifHarness_C08_table_step_1() { tableStep(1) }
func VerifHarness_C08_table_step_2() { tableStep(2) }
func VerifHarness_C08_table_step_3() { tableStep(3) }

func tableStep(quarter int) {
	chunk := 64*quarter + rt.Choice("chunk", 64)
	lo := int(rt.Byte("lo"))
	base := chunk * 256
	var loc [257]T
	for i := range loc {
		loc[i] = expTable[(base+i)%verifM]
	}
	if base+lo >= verifM {
		return
	}
	rt.Assert(uint16(loc[lo+1]) == rt.GFMul(uint16(loc[lo]), 3), "expTable[p+1 mod 65535] == 3*expTable[p]")
	rt.Assert(loc[lo] != 0, "expTable[p] != 0")
	if chunk == 0 {
		rt.Assert(expTable[0] == 1, "expTable[0] == 1")
	}
}

func VerifHarness_C08_table_inverse() {
	ok := true
	for p := 0; p < verifM; p++ {
		x := expTable[p]
		if x == 0 || int(logTable[x-1]) != p {
			ok = false
		}
	}
	rt.Assert(ok, "logTable[expTable[p]-1] == p for every p (constant folding over the dumped tables)")
}

// exp0 assumes exp(0) = 1 on the abstracted table (the concrete fact is
// checked by C08_table_step).
func exp0() {
	z := rt.Int("zero0")
	rt.Assume(z >= 0)
	rt.Assume(z < verifM)
	e0 := expTable[z]
	rt.Assume(z == 0)
	rt.Assume(e0 == 1)
}

// Index formulas, written exactly as t.go computes them so that the terms
// coincide; their modular properties are proved for all integers in range by
// C08_mod_lemmas (pure integer arithmetic, no tables) and assumed, at the
// operands, by the bit-vector harnesses below.
func idxNeg(a int) int    { return (-a + verifM) % verifM }
func idxSub(a, b int) int { return (a - b + verifM) % verifM }

func VerifHarness_C08_mod_lemmas() {
	a, b := rt.MathInt("a"), rt.MathInt("b")
	rt.Assume(a >= 0)
	rt.Assume(a < verifM)
	rt.Assume(b >= 0)
	rt.Assume(b < verifM)
	n := idxNeg(a)
	rt.Assert(n >= 0, "0 <= idxNeg")
	rt.Assert(n < verifM, "idxNeg < M")
	rt.Assert((a+n)%verifM == 0, "(a + idxNeg(a)) mod M == 0")
	d := idxSub(a, b)
	rt.Assert(d >= 0, "0 <= idxSub")
	rt.Assert(d < verifM, "idxSub < M")
	rt.Assert((d+b)%verifM == a, "(idxSub(a,b) + b) mod M == a")
	s := (a + b) % verifM
	rt.Assert(s >= 0, "0 <= idxAdd")
	rt.Assert(s < verifM, "idxAdd < M")
}

func VerifHarness_C08_T_times() {
	var t, u T
	switch rt.Choice("zeros", 4) {
	case 0:
		var a, b int
		t, a = elem("logT")
		u, b = elem("logU")
		homInstance(a, b)
		rt.Reach("nonzero")
	case 1:
		u, _ = elem("logU")
	case 2:
		t, _ = elem("logT")
	}
	got := t.Times(u)
	rt.Assert(uint16(got) == rt.GFMul(uint16(t), uint16(u)), "Times == reduced carry-less product")
}

func VerifHarness_C08_T_inverse() {
	t, a := elem("logT")
	n := idxNeg(a)
	rt.Assume(n >= 0) // C08_mod_lemmas
	rt.Assume(n < verifM)
	rt.Assume((a+n)%verifM == 0)
	homInstance(a, n)
	exp0()
	got := t.Inverse()
	rt.Assert(rt.GFMul(uint16(got), uint16(t)) == 1, "t * Inverse(t) == 1")
}

func VerifHarness_C08_T_div() {
	var t T
	u, b := elem("logU")
	if rt.Bool("nonzeroT") {
		var a int
		t, a = elem("logT")
		d := idxSub(a, b)
		rt.Assume(d >= 0) // C08_mod_lemmas
		rt.Assume(d < verifM)
		rt.Assume((d+b)%verifM == a)
		homInstance(d, b)
		rt.Reach("nonzero")
	}
	got := t.Div(u)
	// a/b is the unique x with x*b = a
	rt.Assert(rt.GFMul(uint16(got), uint16(u)) == uint16(t), "Div(t,u) * u == t")
}

// Pow: the table index is (log t * p) mod 65535 computed exactly (integer
// mode: every +,*,conversion carries a no-overflow obligation), and the zero
// cases are as specified.  With H, exp((log t * p) mod M) is the p-fold product.
func VerifHarness_C08_T_pow() {
	rt.Option("int-mode")
	p := rt.MathInt("p")
	rt.Assume(p >= 0)
	rt.Assume(p <= 0xffffffff)
	if rt.Bool("zeroBase") {
		t := T(0)
		rt.Assert(t.Pow(0) == 1, "0^0 == 1")
		if p > 0 {
			rt.Assert(t.Pow(uint32(p)) == 0, "0^p == 0 for p > 0")
		}
		return
	}
	// the base is given by its logarithm a, so that a counterexample (a, p)
	// replays against the real tables: t = exp(a), and log(t) = a (table lemma)
	a := rt.MathInt("a")
	rt.Assume(a >= 0)
	rt.Assume(a < verifM)
	t := expTable[a]
	rt.Assume(t != 0)
	rt.Assume(int(logTable[t-1]) == a)
	got := t.Pow(uint32(p))
	want := expTable[(a*p)%verifM]
	rt.Assert(got == want, "Pow(t,p) == exp((log t * p) mod 65535), exact integer arithmetic")
	rt.Assert(t.Pow(0) == 1, "t^0 == 1")
}

func VerifHarness_C08_T_plusminus() {
	t, u := T(rt.U16("t")), T(rt.U16("u"))
	rt.Assert(t.Plus(u) == t^u, "Plus is xor")
	rt.Assert(t.Minus(u) == t^u, "Minus is xor")
}
