package gf2p16

// C09: bulk multiply kernels.  gosym part: the contents of the multiplication
// tables (from the bodies of the table-building loops), the dispatch
// arithmetic of mulByteSliceLE / mulAndAddByteSliceLE for every length, the
// portable Go loops, and the exported entry points on concrete lengths with
// symbolic contents.  The assembly itself is checked by asmsym.

import rt "github.com/akalin/gopar/internal/zzverifrt"

func init() {
	rt.Register("C09_table_mulTable", VerifHarness_C09_table_mulTable)
	rt.Register("C09_table_mulTable64", VerifHarness_C09_table_mulTable64)
	rt.Register("C09_dispatch_mul", VerifHarness_C09_dispatch_mul)
	rt.Register("C09_dispatch_muladd", VerifHarness_C09_dispatch_muladd)
	rt.Register("C09_generic_mul", VerifHarness_C09_generic_mul)
	rt.Register("C09_generic_muladd", VerifHarness_C09_generic_muladd)
	rt.Register("C09_slice_generic", VerifHarness_C09_slice_generic)
	rt.Register("C09_exported_mul", VerifHarness_C09_exported_mul)
	rt.Register("C09_exported_muladd", VerifHarness_C09_exported_muladd)
	rt.Register("C09_platformLE", VerifHarness_C09_platformLE)
	rt.Register("C09_inplace", VerifHarness_C09_inplace)
	rt.Register("C09_muladd_thrice", VerifHarness_C09_muladd_thrice)
	rt.Register("C09_inplace_row", VerifHarness_C09_inplace_row)
	rt.Register("C09_size_mismatch", VerifHarness_C09_size_mismatch)
}

// specTimes is the contract of T.Times established by C08_T_times.
func specTimes(t, u T) T { return T(rt.GFMul(uint16(t), uint16(u))) }

// Every iteration of the loop that fills mulTable stores c*j and c*(j<<8):
// the loop body is run from an arbitrary value of the outer index, with
// T.Times replaced by its verified contract.
func VerifHarness_C09_table_mulTable() {
	nativeTableCheck()
	rt.Replace("(github.com/akalin/gopar/gf2p16.T).Times", specTimes)
	rt.TableLoop("i", 0, 1<<16, 2*256)
	rt.RunLoopBody("@gf2p16-table-init", 1, func(i int) bool { return i >= 0 })
}

func VerifHarness_C09_table_mulTable64() {
	nativeTableCheck()
	rt.Replace("(github.com/akalin/gopar/gf2p16.T).Times", specTimes)
	rt.TableLoop("i", 0, 1<<16, 8*16)
	rt.RunLoopBody("github.com/akalin/gopar/gf2p16.platformInit", 0, func(i int) bool { return i >= 0 })
}

// Native side of the table harnesses: the tables the package initialisation
// really built, at the index the solver reported (and its neighbours, and the
// last entries), against the specification of the field product.
func nativeTableCheck() {
	if rt.IsSymbolic() {
		return
	}
	i := int(rt.U64("loop_i"))
	ok, ok64 := true, true
	for _, c := range []int{i - 1, i, i + 1, 1, 2, 1<<16 - 2, 1<<16 - 1} {
		if c < 0 || c >= 1<<16 {
			continue
		}
		for j := 0; j < 256; j++ {
			if uint16(mulTable[c].s0[j]) != rt.GFMul(uint16(c), uint16(j)) || uint16(mulTable[c].s8[j]) != rt.GFMul(uint16(c), uint16(j)<<8) {
				ok = false
			}
		}
		e := &mulTable64[c]
		for j := 0; j < 16; j++ {
			for k, f := range [][2]*[16]byte{{&e.s0Low, &e.s0High}, {&e.s4Low, &e.s4High}, {&e.s8Low, &e.s8High}, {&e.s12Low, &e.s12High}} {
				want := rt.GFMul(uint16(c), uint16(j)<<(4*uint(k)))
				if f[0][j] != byte(want) || f[1][j] != byte(want>>8) {
					ok64 = false
				}
			}
		}
	}
	rt.Assert(ok, "table-contract: mulTable entries equal the field products (native tables)")
	rt.Assert(ok64, "table-contract: mulTable64 entries equal the field products (native tables)")
}

// Dispatch arithmetic for every non-negative length: the SIMD kernel gets the
// whole buffers iff SSSE3 is used and len >= 32, the scalar kernel gets exactly
// the remaining tail, the kernels' preconditions hold, and together they cover
// [0, len).
func VerifHarness_C09_dispatch_mul() {
	rt.Option("int-mode")
	c := T(rt.U16("c"))
	in := rt.AbstractBytes("in")
	out := rt.AbstractBytesLen("out", len(in))
	rt.Assume(len(in)%2 == 0)
	want := nativeFill(c, in, out, false)
	mulByteSliceLE(c, in, out, rt.Bool("ssse3"))
	rt.KernelCoverage(len(in))
	rt.Assert(rt.GuardsIntact(), "nothing written past the end of the buffers (native replay)")
	nativeCompare(out, want)
}

// Native replay of a dispatch counterexample: real contents (the abstract
// buffers have none under gosym), so that a range no kernel was given shows in
// the output.
func nativeFill(c T, in, out []byte, add bool) []byte {
	if rt.IsSymbolic() {
		return nil
	}
	for i := range in {
		in[i] = byte(i*7 + 1)
		out[i] = 0xEE
	}
	want := append([]byte(nil), out...)
	if add {
		mulAndAddByteSliceLEGeneric(c, in, want)
	} else {
		mulByteSliceLEGeneric(c, in, want)
	}
	return want
}

func nativeCompare(out, want []byte) {
	if rt.IsSymbolic() {
		return
	}
	same := len(out) == len(want)
	for i := range want {
		if i < len(out) && out[i] != want[i] {
			same = false
		}
	}
	rt.Assert(same, "dispatch: every byte of the buffer is covered (native: result equals the portable loop)")
}

func VerifHarness_C09_dispatch_muladd() {
	rt.Option("int-mode")
	c := T(rt.U16("c"))
	rt.Assume(c != 0) // the dispatch arithmetic does not depend on c; a non-zero c makes stray accumulations visible on replay
	in := rt.AbstractBytes("in")
	out := rt.AbstractBytesLen("out", len(in))
	rt.Assume(len(in)%2 == 0)
	want := nativeFill(c, in, out, true)
	mulAndAddByteSliceLE(c, in, out, rt.Bool("ssse3"))
	rt.KernelCoverage(len(in))
	rt.Assert(rt.GuardsIntact(), "nothing written past the end of the buffers (native replay)")
	nativeCompare(out, want)
}

func VerifHarness_C09_size_mismatch() {
	rt.Option("int-mode")
	c := T(rt.U16("c"))
	in := rt.AbstractBytes("in")
	out := rt.AbstractBytes("out")
	rt.Assume(len(in) != len(out))
	panicked := false
	func() {
		defer func() {
			if recover() != nil {
				panicked = true
			}
		}()
		if rt.Bool("add") {
			mulAndAddByteSliceLE(c, in, out, rt.Bool("ssse3"))
		} else {
			mulByteSliceLE(c, in, out, rt.Bool("ssse3"))
		}
	}()
	rt.Assert(panicked, "size mismatch is rejected before any kernel runs")
}

func word(b []byte, i int) uint16 { return uint16(b[2*i]) | uint16(b[2*i+1])<<8 }

func checkMul(c T, in0, in, out0, out []byte, add bool, what string) {
	for i := 0; i < len(in)/2; i++ {
		want := rt.GFMul(uint16(c), word(in0, i))
		if add {
			want ^= word(out0, i)
		}
		rt.Assert(word(out, i) == want, what+": out word == c*in word")
		rt.Assert(in[2*i] == in0[2*i], what+": input unchanged")
		rt.Assert(in[2*i+1] == in0[2*i+1], what+": input unchanged")
	}
}

func genericCase(add bool) {
	n := 2 * rt.Choice("words", 5)
	c := T(rt.U16("c"))
	in := rt.Bytes("in", n)
	out := rt.Bytes("out", n)
	in0 := append([]byte(nil), in...)
	out0 := append([]byte(nil), out...)
	if add {
		mulAndAddByteSliceLEGeneric(c, in, out)
	} else {
		mulByteSliceLEGeneric(c, in, out)
	}
	checkMul(c, in0, in, out0, out, add, "portable byte loop")
}

func VerifHarness_C09_generic_mul()    { genericCase(false) }
func VerifHarness_C09_generic_muladd() { genericCase(true) }

func VerifHarness_C09_slice_generic() {
	n := rt.Choice("words", 4)
	c := T(rt.U16("c"))
	in := make([]T, n)
	out := make([]T, n)
	for i := range in {
		in[i] = T(rt.U16("in" + string(rune('0'+i))))
		out[i] = T(rt.U16("out" + string(rune('0'+i))))
	}
	in0 := append([]T(nil), in...)
	out0 := append([]T(nil), out...)
	add := rt.Bool("add")
	if add {
		mulAndAddSliceGeneric(c, in, out)
	} else {
		mulSliceGeneric(c, in, out)
	}
	for i := range in {
		want := rt.GFMul(uint16(c), uint16(in0[i]))
		if add {
			want ^= uint16(out0[i])
		}
		rt.Assert(uint16(out[i]) == want, "portable word loop: out == c*in")
		rt.Assert(in[i] == in0[i], "portable word loop: input unchanged")
	}
}

// exportedCase drives the exported entry point (the SSSE3 flag is the
// package's own, symbolic under gosym) on a concrete length with symbolic
// contents; the kernels are used through their asmsym-verified contracts.
func exportedCase(add bool) {
	n := 2 * rt.Choice("words", 36) // 0..70 bytes: below, at and above the 32- and 64-byte SIMD blocks
	c := T(rt.U16("c"))
	in := rt.Bytes("in", n)
	out := rt.Bytes("out", n)
	in0 := append([]byte(nil), in...)
	out0 := append([]byte(nil), out...)
	if add {
		MulAndAddByteSliceLE(c, in, out)
	} else {
		MulByteSliceLE(c, in, out)
	}
	checkMul(c, in0, in, out0, out, add, "exported")
}

func VerifHarness_C09_exported_mul()    { exportedCase(false) }
func VerifHarness_C09_exported_muladd() { exportedCase(true) }

// The []T entry points used by the matrix code, through the unsafe views.
func VerifHarness_C09_platformLE() {
	n := rt.Choice("words", 20)
	c := T(rt.U16("c"))
	in := make([]T, n)
	out := make([]T, n)
	for i := range in {
		in[i] = T(rt.U16("in" + string(rune('A'+i))))
		out[i] = T(rt.U16("out" + string(rune('A'+i))))
	}
	in0 := append([]T(nil), in...)
	out0 := append([]T(nil), out...)
	add := rt.Bool("add")
	if add {
		mulAndAddSlice(c, in, out)
	} else {
		mulSlice(c, in, out)
	}
	for i := range in {
		want := rt.GFMul(uint16(c), uint16(in0[i]))
		if add {
			want ^= uint16(out0[i])
		}
		rt.Assert(uint16(out[i]) == want, "mulSlice/mulAndAddSlice: out == c*in")
		rt.Assert(in[i] == in0[i], "mulSlice/mulAndAddSlice: input unchanged")
	}
}

// In-place use (Matrix.scaleRow calls mulSlice(c, row, row)): with in and out
// the same buffer every word is multiplied exactly once.
func VerifHarness_C09_inplace() {
	n := 2 * rt.Choice("words", 36)
	c := T(rt.U16("c"))
	buf := rt.Bytes("buf", n)
	buf0 := append([]byte(nil), buf...)
	MulByteSliceLE(c, buf, buf)
	for i := 0; i < n/2; i++ {
		rt.Assert(word(buf, i) == rt.GFMul(uint16(c), word(buf0, i)), "in place: word == c * previous word")
	}
}

func VerifHarness_C09_inplace_row() {
	n := rt.Choice("words", 36)
	c := T(rt.U16("c"))
	row := make([]T, n)
	for i := range row {
		row[i] = T(rt.U16("r" + string(rune('A'+i))))
	}
	row0 := append([]T(nil), row...)
	mulSlice(c, row, row)
	for i := range row {
		rt.Assert(uint16(row[i]) == rt.GFMul(uint16(c), uint16(row0[i])), "scaleRow's in-place mulSlice: element == c * previous element")
	}
}

// Hidden state between calls: three multiply-accumulate calls of different
// lengths in one process (tails long, short, long), each judged on its own.
func VerifHarness_C09_muladd_thrice() {
	lens := [][3]int{{62, 34, 62}, {34, 62, 34}, {40, 36, 44}, {6, 2, 4}}[rt.Choice("lengths", 4)]
	for round, n := range lens {
		c := T(rt.U16("c" + string(rune('0'+round))))
		in := rt.Bytes("in"+string(rune('0'+round)), n)
		out := rt.Bytes("out"+string(rune('0'+round)), n)
		in0 := append([]byte(nil), in...)
		out0 := append([]byte(nil), out...)
		MulAndAddByteSliceLE(c, in, out)
		checkMul(c, in0, in, out0, out, true, "exported")
	}
}
