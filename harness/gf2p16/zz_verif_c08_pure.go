package gf2p16

// The field operations keep no state: two goroutines that call Times, Div,
// Inverse and Pow on their own operands touch no common memory cell that
// either of them writes (the callers in rsec16 run them from many workers).

import (
	"sync"

	rt "github.com/akalin/gopar/internal/zzverifrt"
)

func init() { rt.Register("C08_ops_stateless", VerifHarness_C08_ops_stateless) }

func VerifHarness_C08_ops_stateless() {
	rt.Option("footprints")
	rt.Option("no-merge") // conditional stores must stay stores for the footprints
	a, b := T(rt.U16("a")), T(rt.U16("b"))
	c, d := T(rt.U16("c")), T(rt.U16("d"))
	rt.Assume(b != 0)
	rt.Assume(d != 0)
	op := rt.Choice("op", 4)
	var r1, r2 T
	work := func(x, y T, out *T) {
		switch op {
		case 0:
			*out = x.Times(y)
		case 1:
			*out = x.Div(y)
		case 2:
			*out = y.Inverse()
		default:
			*out = x.Pow(uint32(y))
		}
	}
	var wg sync.WaitGroup
	wg.Add(2)
	go func() {
		defer wg.Done()
		work(a, b, &r1)
	}()
	go func() {
		defer wg.Done()
		work(c, d, &r2)
	}()
	wg.Wait()
	rt.RaceFree("no worker writes a cell another worker reads or writes")
	_, _ = r1, r2
}
