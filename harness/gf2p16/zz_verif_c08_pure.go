package gf2p16

// The field operations keep no state: two goroutines that call Times, Div,
// Inverse and Pow on their own operands touch no common memory cell that
// either of them writes (the callers in rsec16 run them from many workers).

import (
	"sync"

	rt "github.com/akalin/gopar/internal/zzverifrt"
)

func init() { rt.Register("C08_ops_stateless", VerifHarness_C08_ops_stateless) }

func VerifHarness_C08_ops_stateless() {
	rt.Option("footprints")
	rt.Option("no-merge") // conditional stores must stay stores for the footprints
	a, b := T(rt.U16("a")), T(rt.U16("b"))
	c, d := T(rt.U16("c")), T(rt.U16("d"))
	rt.Assume(b != 0)
	rt.Assume(d != 0)
	op := rt.Choice("op", 4)
	var r1, r2 T
	work := func(x, y T, out *T) {
		switch op {
		case 0:
			*out = x.Times(y)
		case 1:
			*out = x.Div(y)
		case 2:
			*out = y.Inverse()
		default:
			*out = x.Pow(uint32(y))
		}
	}
	var wg sync.WaitGroup
	wg.Add(2)
	go func() {
		defer wg.Done()
		work(a, b, &r1)
	}()
	go func() {
		defer wg.Done()
		work(c, d, &r2)
	}()
	wg.Wait()
	rt.RaceFree("no worker writes a cell another worker reads or writes")
	_, _ = r1, r2
}

func init() { rt.Register("C08_pow_twice", VerifHarness_C08_pow_twice) }

// Two Pow calls in one process (small exponents decided by the reference
// square-and-multiply over the specification product): the second result does
// not depend on the first call.
func VerifHarness_C08_pow_twice() {
	bases := []T{0, 1, 3, 5, 0x405, 0x1235}
	t1, t2 := bases[rt.Choice("t1", 6)], bases[rt.Choice("t2", 6)]
	p1 := []uint32{5, 65541, 65543, 0x04000009}[rt.Choice("p1", 4)]
	p2 := []uint32{5, 7, 9, 65543}[rt.Choice("p2", 4)]
	_ = t1.Pow(p1)
	got := t2.Pow(p2)
	// t^p == t^(p mod 65535) for t != 0 (the group has order 65535); 0^p == 0 for p > 0
	e := p2 % 65535
	if t2 == 0 {
		e = 1
	}
	want := uint16(1)
	for i := uint32(0); i < e; i++ {
		want = rt.GFMul(want, uint16(t2))
	}
	if p2 == 0 {
		want = 1
	}
	rt.Assert(uint16(got) == want, "Pow is the p-fold product, whatever was computed before")
}
