package gf2p16

// C11: matrix inversion and row reduction.  Fully symbolic GF(2^16) matrices
// are out of solver reach (associativity of the field product), so:
//  A  every 0/1 matrix of dimension n (entries are symbolic bits): error iff
//     the determinant (Leibniz formula) is zero, inverse * M = M * inverse = I,
//     row reduction of a symbolic 16-bit N gives M * result = N.  This drives
//     every pivot search, swap position and late singularity.
//  C  concrete structured M (needing swaps, non-unit pivots, rank deficient)
//     with fully symbolic 16-bit N: M * RowReduce(M, N) = N, error iff singular.
// T.Times is replaced by its contract (C08); the row kernels by theirs (C09).

import rt "github.com/akalin/gopar/internal/zzverifrt"

func init() {
	rt.Register("C11_inverse_01", VerifHarness_C11_inverse_01)
	rt.Register("C11_rowreduce_01", VerifHarness_C11_rowreduce_01)
	rt.Register("C11_rowreduce_01_n3", VerifHarness_C11_rowreduce_01_n3)
	rt.Register("C11_rowreduce_concrete", VerifHarness_C11_rowreduce_concrete)
	rt.Register("C11_times", VerifHarness_C11_times)
	rt.Register("C11_fill", VerifHarness_C11_fill)
	rt.Register("C11_wide_swap", VerifHarness_C11_wide_swap)
	rt.Register("C11_reduce_twice", VerifHarness_C11_reduce_twice)
}

func bitElems(name string, n int) []T {
	e := make([]T, n*n)
	for i := range e {
		e[i] = T(rt.Byte(name+string(rune('a'+i))) & 1)
	}
	return e
}

// det01 is the determinant of a 0/1 matrix (over GF(2), so a 0/1 value).
func det01(e []T, n int) T {
	switch n {
	case 1:
		return e[0]
	case 2:
		return e[0]&e[3] ^ e[1]&e[2]
	case 3:
		return e[0]&e[4]&e[8] ^ e[0]&e[5]&e[7] ^ e[1]&e[3]&e[8] ^ e[1]&e[5]&e[6] ^ e[2]&e[3]&e[7] ^ e[2]&e[4]&e[6]
	}
	// cofactor expansion along the first row
	var d T
	for c := 0; c < n; c++ {
		var minor []T
		for i := 1; i < n; i++ {
			for j := 0; j < n; j++ {
				if j != c {
					minor = append(minor, e[i*n+j])
				}
			}
		}
		d ^= e[c] & det01(minor, n-1)
	}
	return d
}

func isIdentity(m Matrix, what string) {
	for i := 0; i < m.rows; i++ {
		for j := 0; j < m.columns; j++ {
			var want T
			if i == j {
				want = 1
			}
			rt.Assert(m.At(i, j) == want, what)
		}
	}
}

func unchanged(m Matrix, orig []T, what string) {
	for i := range orig {
		rt.Assert(m.elements[i] == orig[i], what)
	}
}

func dimChoice(max int) int { return 1 + rt.Choice("n", max) }

func VerifHarness_C11_inverse_01() {
	rt.Replace("(github.com/akalin/gopar/gf2p16.T).Times", specTimes)
	n := dimChoice(3)
	e := bitElems("m", n)
	m := NewMatrixFromSlice(n, n, e)
	inv, err := m.Inverse()
	d := det01(e, n)
	if err != nil {
		rt.Assert(d == 0, "error only for a singular matrix")
		rt.Reach("singular")
	} else {
		rt.Assert(d == 1, "no error only for a non-singular matrix")
		isIdentity(inv.Times(m), "inverse * M == I")
		isIdentity(m.Times(inv), "M * inverse == I")
		rt.Reach("nonsingular")
	}
	unchanged(m, e, "operand unchanged by Inverse")
}

func VerifHarness_C11_rowreduce_01()    { rowreduce01(2) }
func VerifHarness_C11_rowreduce_01_n3() { rowreduce01(3) }

func rowreduce01(maxN int) {
	rt.Replace("(github.com/akalin/gopar/gf2p16.T).Times", specTimes)
	n := dimChoice(maxN)
	e := bitElems("m", n)
	m := NewMatrixFromSlice(n, n, e)
	k := 1 + rt.Choice("rhsColumns", 3)
	ne := make([]T, n*k)
	for i := range ne {
		ne[i] = T(rt.U16("n" + string(rune('a'+i))))
	}
	nm := NewMatrixFromSlice(n, k, ne)
	r, err := m.RowReduceForInverse(nm)
	d := det01(e, n)
	if err != nil {
		rt.Assert(d == 0, "error only for a singular matrix")
	} else {
		rt.Assert(d == 1, "no error only for a non-singular matrix")
		// M has 0/1 entries: the product with row k of the result is a masked xor
		for i := 0; i < n; i++ {
			for j := 0; j < k; j++ {
				var s T
				for l := 0; l < n; l++ {
					s ^= r.At(l, j) & (0 - e[i*n+l])
				}
				rt.Assert(s == ne[i*k+j], "M * RowReduce(M,N) == N")
			}
		}
		rt.Reach("nonsingular")
	}
	unchanged(m, e, "M unchanged by RowReduceForInverse")
	unchanged(nm, ne, "N unchanged by RowReduceForInverse")
}

var concreteMatrices = []struct {
	n        int
	e        []T
	singular bool
}{
	{1, []T{0x1234}, false},
	{1, []T{0}, true},
	{2, []T{0, 5, 7, 0}, false},                                     // swap at the first pivot
	{2, []T{2, 4, 4, 16}, false},                                    // non-unit pivots
	{2, []T{3, 5, 6, 10}, true},                                     // row 2 = 2 * row 1 in GF(2^16)? (checked by the oracle below)
	{3, []T{0, 0, 1, 0, 2, 3, 4, 5, 6}, false},                      // swaps at pivots 0 and (after elimination) none
	{3, []T{1, 2, 3, 1, 2, 4, 5, 6, 7}, false},                      // zero pivot appears only after elimination
	{3, []T{1, 1, 1, 2, 4, 16, 4, 16, 256}, false},                  // PAR2 Vandermonde block
	{3, []T{1, 2, 3, 4, 5, 6, 5, 7, 5}, true},                       // row 3 = row 1 + row 2
	{4, []T{0, 0, 0, 9, 0, 0, 8, 1, 0, 7, 2, 3, 6, 4, 5, 1}, false}, // anti-triangular: swap at every pivot
}

func VerifHarness_C11_rowreduce_concrete() {
	rt.Replace("(github.com/akalin/gopar/gf2p16.T).Times", specTimes)
	c := concreteMatrices[rt.Choice("matrix", len(concreteMatrices))]
	n := c.n
	m := NewMatrixFromSlice(n, n, c.e)
	k := 1 + rt.Choice("rhsColumns", 5) // narrower than, equal to and wider than M
	ne := make([]T, n*k)
	for i := range ne {
		ne[i] = T(rt.U16("n" + string(rune('a'+i))))
	}
	nm := NewMatrixFromSlice(n, k, ne)
	r, err := m.RowReduceForInverse(nm)
	if err == nil {
		p := m.Times(r)
		for i := range ne {
			rt.Assert(p.elements[i] == ne[i], "M * RowReduce(M,N) == N (concrete M, symbolic N)")
		}
		// a solution for every N exists only for non-singular M
		rt.Reach("nonsingular")
	} else {
		rt.Reach("singular")
	}
	unchanged(m, c.e, "M unchanged")
	unchanged(nm, ne, "N unchanged")
	inv, err2 := m.Inverse()
	rt.Assert((err == nil) == (err2 == nil), "Inverse and RowReduceForInverse agree on singularity")
	if err2 == nil {
		isIdentity(inv.Times(m), "inverse * M == I (concrete M)")
	}
}

// Construction is size independent: NewMatrixFromFunction sets every element to
// fn(i, j) and NewIdentityMatrix is the identity, also for matrices beyond the
// sizes the other harnesses use (up to 130 x 128 = 16640 elements, 200 x 100).
func VerifHarness_C11_fill() {
	dims := [][2]int{{1, 1}, {3, 5}, {33, 31}, {129, 128}, {130, 127}, {200, 100}, {257, 3}, {263, 1}, {300, 2}}[rt.Choice("dims", 9)]
	rows, cols := dims[0], dims[1]
	base := T(rt.U16("base"))
	fn := func(i, j int) T { return base ^ T(i*cols+j) }
	m := NewMatrixFromFunction(rows, cols, fn)
	ok := true
	for i := 0; i < rows; i++ {
		for j := 0; j < cols; j++ {
			if m.At(i, j) != fn(i, j) {
				ok = false
			}
		}
	}
	rt.Assert(ok, "NewMatrixFromFunction: element (i,j) == fn(i,j) for every i, j")
	n := rows
	id := NewIdentityMatrix(n)
	idOK := true
	for i := 0; i < n; i++ {
		for j := 0; j < n; j++ {
			want := T(0)
			if i == j {
				want = 1
			}
			if id.At(i, j) != want {
				idOK = false
			}
		}
	}
	rt.Assert(idOK, "NewIdentityMatrix(n) is the identity for every n")
}

// Row operations on rows wider than 256 elements: a 2x2 system that needs its
// rows swapped, with a right-hand side of 300 columns (symbolic at the columns
// around 256 and at both ends).
func VerifHarness_C11_wide_swap() {
	const cols = 300
	m := NewMatrixFromSlice(2, 2, []T{0, 1, 1, 0})
	els := make([]T, 2*cols)
	for i := range els {
		els[i] = T(i + 1)
	}
	for k, c := range []int{0, 1, 255, 256, 257, 299} {
		els[c] = T(rt.U16("a" + string(rune('0'+k))))
		els[cols+c] = T(rt.U16("b" + string(rune('0'+k))))
	}
	els0 := append([]T(nil), els...)
	n := NewMatrixFromSlice(2, cols, els)
	r, err := m.RowReduceForInverse(n)
	rt.Assert(err == nil, "error only for a singular matrix")
	if err != nil {
		return
	}
	ok := true
	for j := 0; j < cols; j++ {
		// M is the row exchange, so M^-1 N is N with its rows exchanged
		if r.At(0, j) != els0[cols+j] || r.At(1, j) != els0[j] {
			ok = false
		}
	}
	rt.Assert(ok, "M * RowReduce(M,N) == N (row exchange, 300 columns)")
	unchanged(n, els0, "N unchanged")
}

// Two reductions in one process: a narrow one first, then the wide row
// exchange; the second result does not depend on the first call.
func VerifHarness_C11_reduce_twice() {
	m := NewMatrixFromSlice(2, 2, []T{0, 1, 1, 0})
	w1 := 1 + rt.Choice("firstWidth", 3)
	n1 := make([]T, 2*w1)
	for i := range n1 {
		n1[i] = T(i + 7)
	}
	_, err := m.RowReduceForInverse(NewMatrixFromSlice(2, w1, n1))
	rt.Assert(err == nil, "error only for a singular matrix")
	cols := []int{2, 5, 9}[rt.Choice("secondWidth", 3)]
	els := make([]T, 2*cols)
	for i := range els {
		els[i] = T(rt.U16("e" + string(rune('A'+i))))
	}
	els0 := append([]T(nil), els...)
	r, err := m.RowReduceForInverse(NewMatrixFromSlice(2, cols, els))
	rt.Assert(err == nil, "error only for a singular matrix")
	if err != nil {
		return
	}
	ok := true
	for j := 0; j < cols; j++ {
		if r.At(0, j) != els0[cols+j] || r.At(1, j) != els0[j] {
			ok = false
		}
	}
	rt.Assert(ok, "M * RowReduce(M,N) == N, whatever was reduced before")
}

// The matrix product is the row-by-column product (symbolic 2x2 by 2x2).
func VerifHarness_C11_times() {
	a := make([]T, 4)
	b := make([]T, 4)
	for i := range a {
		a[i] = T(rt.U16("a" + string(rune('0'+i))))
		b[i] = T(rt.U16("b" + string(rune('0'+i))))
	}
	am, bm := NewMatrixFromSlice(2, 2, a), NewMatrixFromSlice(2, 2, b)
	rt.Replace("(github.com/akalin/gopar/gf2p16.T).Times", specTimes)
	q := am.Times(bm)
	for i := 0; i < 2; i++ {
		for j := 0; j < 2; j++ {
			want := rt.GFMul(uint16(a[i*2]), uint16(b[j])) ^ rt.GFMul(uint16(a[i*2+1]), uint16(b[2+j]))
			rt.Assert(uint16(q.At(i, j)) == want, "Times is the row-by-column product")
		}
	}
	unchanged(am, a, "left operand unchanged")
	unchanged(bm, b, "right operand unchanged")
}
