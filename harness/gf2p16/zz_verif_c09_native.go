package gf2p16

// Native replay of asmsym counterexamples: the real assembly kernel is called
// on canary-bracketed buffers of the length found by the solver.

import (
	"encoding/json"
	"os"
	"runtime/debug"
	"syscall"

	rt "github.com/akalin/gopar/internal/zzverifrt"
)

func init() { rt.Register("C09_asm_replay", VerifHarness_C09_asm_replay) }

func VerifHarness_C09_asm_replay() {
	n := int(rt.U64("in_len"))
	c := T(rt.U16("c"))
	kernel := rt.Int("kernel")
	same := rt.Bool("same")
	rt.Assume(n >= 0 && n <= 1<<24)
	guard := n + 4096
	mk := func(seed byte) []byte {
		b := make([]byte, guard+n+guard)
		for i := range b {
			b[i] = 0xA5
		}
		x := uint32(seed) + 12345
		for i := 0; i < n; i++ {
			x = x*1664525 + 1013904223
			b[guard+i] = byte(x >> 24)
		}
		return b
	}
	inBuf := mk(1)
	outBuf := mk(2)
	if same {
		outBuf = inBuf
	}
	in := inBuf[guard : guard+n : guard+n]
	out := outBuf[guard : guard+n : guard+n]
	in0 := append([]byte(nil), in...)
	out0 := append([]byte(nil), out...)
	switch kernel {
	case 0:
		mulByteSliceLEUnsafe(&mulTable[c], in, out)
	case 1:
		mulAndAddByteSliceLEUnsafe(&mulTable[c], in, out)
	case 2:
		mulSliceSSSE3Unsafe(&mulTable64[c], in, out)
	default:
		mulAndAddSliceSSSE3Unsafe(&mulTable64[c], in, out)
	}
	canaryOK := true
	for _, b := range [][]byte{inBuf, outBuf} {
		for i := 0; i < guard; i++ {
			if b[i] != 0xA5 || b[guard+n+i] != 0xA5 {
				canaryOK = false
			}
		}
	}
	rt.Assert(canaryOK, "kernel wrote outside the buffers it was given")
	covered := n
	if kernel >= 2 {
		covered = n - n%32
	}
	ok, inOK := true, true
	for i := 0; i+1 < covered; i += 2 {
		want := rt.GFMul(uint16(c), uint16(in0[i])|uint16(in0[i+1])<<8)
		if kernel == 1 || kernel == 3 {
			want ^= uint16(out0[i]) | uint16(out0[i+1])<<8
		}
		if uint16(out[i])|uint16(out[i+1])<<8 != want {
			ok = false
		}
	}
	if !same {
		for i := range in0 {
			if in[i] != in0[i] {
				inOK = false
			}
		}
	}
	rt.Assert(ok, "out word == c * in word (native)")
	rt.Assert(inOK, "input unchanged (native)")

	// Reads outside a buffer leave no trace in a canary: the kernel is run again
	// on buffers that end (resp. start) at an inaccessible page.
	if n > 0 {
		for _, atEnd := range []bool{true, false} {
			gin, freeIn := guardedBuf(n, atEnd)
			copy(gin, in0)
			gout := gin
			freeOut := func() {}
			if !same {
				gout, freeOut = guardedBuf(n, atEnd)
				copy(gout, out0)
			}
			fault := runGuarded(func() {
				switch kernel {
				case 0:
					mulByteSliceLEUnsafe(&mulTable[c], gin, gout)
				case 1:
					mulAndAddByteSliceLEUnsafe(&mulTable[c], gin, gout)
				case 2:
					mulSliceSSSE3Unsafe(&mulTable64[c], gin, gout)
				default:
					mulAndAddSliceSSSE3Unsafe(&mulTable64[c], gin, gout)
				}
			})
			rt.Assert(!fault, "kernel touched memory outside the buffers it was given (guard page)")
			freeIn()
			freeOut()
		}
	}
}

// guardedBuf returns n bytes that end exactly at (atEnd) or start exactly
// after an inaccessible page.
func guardedBuf(n int, atEnd bool) ([]byte, func()) {
	ps := syscall.Getpagesize()
	pages := (n + ps - 1) / ps
	total := (pages + 2) * ps
	m, err := syscall.Mmap(-1, 0, total, syscall.PROT_READ|syscall.PROT_WRITE, syscall.MAP_ANON|syscall.MAP_PRIVATE)
	if err != nil {
		panic(err)
	}
	if err := syscall.Mprotect(m[:ps], syscall.PROT_NONE); err != nil {
		panic(err)
	}
	if err := syscall.Mprotect(m[total-ps:], syscall.PROT_NONE); err != nil {
		panic(err)
	}
	start := ps
	if atEnd {
		start = total - ps - n
	}
	return m[start : start+n : start+n], func() { syscall.Munmap(m) }
}

func runGuarded(f func()) (fault bool) {
	old := debug.SetPanicOnFault(true)
	defer debug.SetPanicOnFault(old)
	defer func() {
		if r := recover(); r != nil {
			fault = true
		}
	}()
	f()
	return false
}

// Translator validation of asmsym: the outputs asmsym computes by executing
// the disassembled instruction list on concrete inputs must equal what the
// real assembly produces on the same inputs.
func init() { rt.Register("C09_asm_validate", VerifHarness_C09_asm_validate) }

type asmValCase struct {
	Kernel int    `json:"kernel"`
	C      uint16 `json:"c"`
	In     []byte `json:"in"`
	Out0   []byte `json:"out0"`
	Out    []byte `json:"out"`
}

func VerifHarness_C09_asm_validate() {
	b, err := os.ReadFile(os.Getenv("VERIF_ASM_CASES"))
	if err != nil {
		panic(err)
	}
	var cases []asmValCase
	if err := json.Unmarshal(b, &cases); err != nil {
		panic(err)
	}
	rt.Assert(len(cases) >= 12, "validation cases present")
	for _, c := range cases {
		in := append([]byte(nil), c.In...)
		out := append([]byte(nil), c.Out0...)
		switch c.Kernel {
		case 0:
			mulByteSliceLEUnsafe(&mulTable[c.C], in, out)
		case 1:
			mulAndAddByteSliceLEUnsafe(&mulTable[c.C], in, out)
		case 2:
			mulSliceSSSE3Unsafe(&mulTable64[c.C], in, out)
		default:
			mulAndAddSliceSSSE3Unsafe(&mulTable64[c.C], in, out)
		}
		same := len(out) == len(c.Out)
		for i := range out {
			if i < len(c.Out) && out[i] != c.Out[i] {
				same = false
			}
		}
		rt.Assert(same, "asmsym's concrete execution of the kernel equals the real assembly's result")
	}
}
