package rsec16

// C07 (erasure recovery) and C12 (independence of goroutine count).

import (
	"github.com/akalin/gopar/gf2p16"
	rt "github.com/akalin/gopar/internal/zzverifrt"
)

func init() {
	rt.Register("C12_params", VerifHarness_C12_params)
	rt.Register("C12_params_out", VerifHarness_C12_params_out)
	rt.Register("C12_parallel_data", VerifHarness_C12_parallel_data)
	rt.Register("C12_parallel_data_long", VerifHarness_C12_parallel_data_long)
	rt.Register("C12_parallel_out", VerifHarness_C12_parallel_out)
	rt.Register("C12_partition_symbolic", VerifHarness_C12_partition_symbolic)
	rt.Register("C12_coder_goroutines", VerifHarness_C12_coder_goroutines)
	rt.Register("C12_parallel_twice", VerifHarness_C12_parallel_twice)
	rt.Register("C07_reconstruct_twice", VerifHarness_C07_reconstruct_twice)
	rt.Register("C07_cauchy_xy", VerifHarness_C07_cauchy_xy)
	rt.Register("C07_generators", VerifHarness_C07_generators)
	rt.Register("C07_vandermonde_elem", VerifHarness_C07_vandermonde_elem)
	rt.Register("C07_cauchy", VerifHarness_C07_cauchy)
	rt.Register("C07_cauchy_big", VerifHarness_C07_cauchy_big)
	rt.Register("C07_cauchy_gap", VerifHarness_C07_cauchy_gap)
	rt.Register("C07_vandermonde_gap", VerifHarness_C07_vandermonde_gap)
	rt.Register("C07_vandermonde", VerifHarness_C07_vandermonde)
	rt.Register("C07_vandermonde_big", VerifHarness_C07_vandermonde_big)
}

// ---------- C12 (a): partition arithmetic, integer theory ----------

func paramsCase(min, div int) {
	rt.Option("int-mode")
	total := rt.MathInt("total")
	g := rt.MathInt("goroutines")
	rt.Assume(total >= 0)
	rt.Assume(total < 1<<62)
	rt.Assume(g >= 1)
	rt.Assume(g < 1<<31)
	per, n := calculateParallelParams(total, g, min, div)
	rt.Assert(per >= min, "chunk >= minimum")
	rt.Assert(per%div == 0, "chunk is a multiple of the divisor")
	rt.Assert(n >= 0, "worker count >= 0")
	rt.Assert(n <= g, "worker count <= requested")
	rt.Assert(n*per >= total, "chunks cover the total")
	if total > 0 {
		rt.Assert((n-1)*per < total, "last worker is non-empty")
		rt.Assert(n >= 1, "at least one worker for non-empty input")
	}
	// an arbitrary worker i, as the closures compute its range
	i := rt.MathInt("worker")
	rt.Assume(i >= 0)
	rt.Assume(i < n)
	start := i * per
	end := start + per
	if end > total {
		end = total
	}
	rt.Assert(start < end, "worker range non-empty")
	rt.Assert(end <= total, "worker range inside the buffer")
	if i == n-1 {
		rt.Assert(end == total, "last worker ends at the end of the buffer")
	} else {
		rt.Assert(end == (i+1)*per, "next worker starts where this one ends")
	}
}

func VerifHarness_C12_params()     { paramsCase(16, 16) }
func VerifHarness_C12_params_out() { paramsCase(1, 1) }

// ---------- C12 (b), (c): footprints and equivalence ----------

func symMatrix(name string, rows, cols int) gf2p16.Matrix {
	return gf2p16.NewMatrixFromFunction(rows, cols, func(i, j int) gf2p16.T {
		return gf2p16.T(rt.U16(name + string(rune('a'+i)) + string(rune('a'+j))))
	})
}

func shards(name string, n, length int) [][]byte {
	s := make([][]byte, n)
	for i := range s {
		s[i] = rt.Bytes(name+string(rune('A'+i)), length)
	}
	return s
}

func zeros(n, length int) [][]byte {
	s := make([][]byte, n)
	for i := range s {
		s[i] = make([]byte, length)
	}
	return s
}

func sameShards(a, b [][]byte, what string) {
	rt.Assert(len(a) == len(b), what)
	for i := range a {
		for j := range a[i] {
			rt.Assert(a[i][j] == b[i][j], what)
		}
	}
}

func parallelCase(length, g int, out bool) {
	rt.Option("footprints")
	if rt.Bool("reverse") {
		rt.Option("reverse-tasks")
	}
	m := symMatrix("m", 2, 2)
	in := shards("in", 2, length)
	in0 := shards("in", 2, length)
	want := zeros(2, length)
	applyMatrixSingle(m, in, want)
	got := zeros(2, length)
	if out {
		applyMatrixParallelOut(m, in, got, g)
	} else {
		applyMatrixParallelData(m, in, got, g)
	}
	rt.RaceFree("no worker writes a cell another worker reads or writes")
	sameShards(got, want, "parallel result == single-threaded result")
	sameShards(in, in0, "input shards unchanged")
}

func VerifHarness_C12_parallel_data() {
	length := 2 * (1 + rt.Choice("words", 12)) // 2..24 bytes
	g := 1 + rt.Choice("goroutines", 4)
	parallelCase(length, g, false)
}

func VerifHarness_C12_parallel_data_long() {
	length := 26 + 2*rt.Choice("words", 20) // 26..64 bytes: 2..4 workers of 16 or 32 bytes, clamped last chunk
	g := 1 + rt.Choice("goroutines", 6)
	parallelCase(length, g, false)
}

// Hidden state between calls: two different shard lengths through the same
// code in one process; the second call's result is judged like the first.
func VerifHarness_C12_parallel_twice() {
	pairs := [][2]int{{32, 34}, {34, 32}, {16, 48}, {64, 66}, {20, 36}}[rt.Choice("lengths", 5)]
	g := 2 + rt.Choice("goroutines", 3)
	parallelCase(pairs[0], g, false)
	parallelCase(pairs[1], g, false)
}

// The same for the coder: two reconstructions on one coder value with the same
// missing data shard but different parity shards available.
func VerifHarness_C07_reconstruct_twice() {
	vand := rt.Bool("vandermonde")
	var c Coder
	var err error
	if vand {
		c, err = NewCoderPAR2Vandermonde(2, 3, 1)
	} else {
		c, err = NewCoderCauchy(2, 3, 1)
	}
	rt.Assert(err == nil, "coder built")
	data := shards("d", 2, 2)
	parity := c.GenerateParity(data)
	lost := rt.Choice("lost", 2)
	for round := 0; round < 2; round++ {
		d := [][]byte{data[0], data[1]}
		d[lost] = nil
		p := [][]byte{parity[0], parity[1], parity[2]}
		// first round: every parity shard present; second round: the lowest one is gone too
		if round == 1 {
			p[rt.Choice("parityLost", 3)] = nil
		}
		rerr := c.ReconstructData(d, p)
		if rerr == nil {
			sameShards([][]byte{d[lost]}, [][]byte{data[lost]}, "nil error: the reconstructed shard equals the original (second call on the same coder included)")
		} else {
			rt.Assert(vand, "Cauchy coder never fails within capability")
		}
	}
}

func VerifHarness_C12_parallel_out() {
	length := 2 * (1 + rt.Choice("words", 3))
	g := 1 + rt.Choice("goroutines", 3)
	parallelCase(length, g, true)
}

// C12 (b): the real applyMatrixParallelData with buffers of symbolic length
// (no contents): the ranges on which the spawned workers call the kernels are
// consecutive, non-empty and cover the shard, for every even length and 1..4
// requested goroutines; the WaitGroup count equals the number of workers.
func VerifHarness_C12_partition_symbolic() {
	rt.Option("int-mode")
	g := 1 + rt.Choice("goroutines", 4)
	in := [][]byte{rt.AbstractBytes("in")}
	rt.Assume(len(in[0])%2 == 0)
	rt.Assume(len(in[0]) > 0)
	rt.Assume(len(in[0]) < 1<<61)
	out := [][]byte{rt.AbstractBytesLen("out", len(in[0]))}
	m := gf2p16.NewMatrixFromSlice(1, 1, []gf2p16.T{3})
	if !rt.IsSymbolic() {
		// native replay: real contents, so that an uncovered range shows in the output
		for i := range in[0] {
			in[0][i] = byte(i*7 + 1)
		}
	}
	applyMatrixParallelData(m, in, out, g)
	rt.TaskRangesPartition(len(in[0]))
	if !rt.IsSymbolic() {
		want := [][]byte{make([]byte, len(in[0]))}
		applyMatrixSingle(m, in, want)
		same := true
		for i := range want[0] {
			if out[0][i] != want[0][i] {
				same = false
			}
		}
		rt.Assert(same, "worker ranges cover the whole shard")
		rt.Assert(rt.GuardsIntact(), "worker ranges lie inside the shard")
	}
}

// ---------- C07 unit VCs ----------

// Cauchy x- and y-sets are disjoint and individually distinct after the
// conversion to 16 bits whenever data+parity <= 65535, so Inverse never sees 0.
var (
	cauchyFn         func(int, int) gf2p16.T
	cauchyR, cauchyC int
)

func stubMatrixFromFunction(rows, columns int, fn func(int, int) gf2p16.T) gf2p16.Matrix {
	cauchyFn, cauchyR, cauchyC = fn, rows, columns
	return gf2p16.NewMatrixFromSlice(1, 1, []gf2p16.T{1})
}

// with Inverse the identity, an entry of the Cauchy matrix is x_i + y_j itself
func stubInverseNonZero(t gf2p16.T) gf2p16.T {
	rt.Assert(t != 0, "x_i + y_j != 0")
	return t
}

func VerifHarness_C07_cauchy_xy() {
	rt.Option("minimize-words")
	rt.Replace("github.com/akalin/gopar/gf2p16.NewMatrixFromFunction", stubMatrixFromFunction)
	rt.Replace("(github.com/akalin/gopar/gf2p16.T).Inverse", stubInverseNonZero)
	d, p := rt.Int("d"), rt.Int("p")
	rt.Assume(d > 0)
	rt.Assume(p > 0)
	rt.Assume(d < 65536)
	rt.Assume(p < 65536)
	rt.Assume(d+p <= 65535)
	i, i2 := rt.Int("i"), rt.Int("i2")
	j, j2 := rt.Int("j"), rt.Int("j2")
	rt.Assume(i >= 0)
	rt.Assume(i < p)
	rt.Assume(i2 >= 0)
	rt.Assume(i2 < p)
	rt.Assume(j >= 0)
	rt.Assume(j < d)
	rt.Assume(j2 >= 0)
	rt.Assume(j2 < d)
	if !rt.IsSymbolic() {
		// native replay: the real matrix (bounded size); Inverse is injective and panics on 0
		rt.Assume(d*p <= 1<<22)
		m := newCauchyParityMatrix(d, p)
		if i != i2 {
			rt.Assert(m.At(i, j) != m.At(i2, j), "x values distinct")
		}
		if j != j2 {
			rt.Assert(m.At(i, j) != m.At(i, j2), "y values distinct")
		}
		return
	}
	// the real construction, with the element function captured instead of evaluated d*p times
	newCauchyParityMatrix(d, p)
	rt.Assert(cauchyR == p && cauchyC == d, "parity matrix has one row per parity shard and one column per data shard")
	a, b, c := cauchyFn(i, j), cauchyFn(i2, j), cauchyFn(i, j2)
	if i != i2 {
		rt.Assert(a != b, "x values distinct")
	}
	if j != j2 {
		rt.Assert(a != c, "y values distinct")
	}
}

// The generator table built by init: entry k is 2^n for the k-th n in
// 0..65535 not divisible by 3, 5, 17 or 257 (checked against a reference
// power computed with the specification product).
func refPow2(n int) uint16 {
	r, b := uint16(1), uint16(2)
	for n > 0 {
		if n&1 != 0 {
			r = rt.GFMul(r, b)
		}
		b = rt.GFMul(b, b)
		n >>= 1
	}
	return r
}

func VerifHarness_C07_generators() {
	k := 0
	ok := true
	for n := 0; n < 1<<16; n++ {
		if n%3 == 0 || n%5 == 0 || n%17 == 0 || n%257 == 0 {
			continue
		}
		if k >= len(generators) || uint16(generators[k]) != refPow2(n) {
			ok = false
		}
		k++
	}
	rt.Assert(ok, "generators[k] == 2^(k-th admissible exponent) (constant folding over the real init)")
	rt.Assert(k == len(generators), "generator count")
	rt.Assert(len(generators) == 32768, "32768 generators")
}

// Vandermonde element (i, j) is generators[j]^i for symbolic (i, j).
func VerifHarness_C07_vandermonde_elem() {
	rows, cols := 3, 3
	m := newVandermondeParityMatrix(cols, rows)
	for i := 0; i < rows; i++ {
		for j := 0; j < cols; j++ {
			want := uint16(1)
			for e := 0; e < i; e++ {
				want = rt.GFMul(want, uint16(generators[j]))
			}
			rt.Assert(uint16(m.At(i, j)) == want, "parity matrix row e is generators^e")
		}
	}
}

// ---------- C07 scenario ----------

func refGFInv(a uint16) uint16 {
	// a^(2^16-2)
	r := uint16(1)
	b := a
	n := 65534
	for n > 0 {
		if n&1 != 0 {
			r = rt.GFMul(r, b)
		}
		b = rt.GFMul(b, b)
		n >>= 1
	}
	return r
}

// refSingular decides singularity of a concrete square matrix by Gaussian
// elimination with the specification arithmetic (independent of gf2p16.Matrix).
func refSingular(m [][]uint16) bool {
	n := len(m)
	a := make([][]uint16, n)
	for i := range a {
		a[i] = append([]uint16(nil), m[i]...)
	}
	for c := 0; c < n; c++ {
		p := -1
		for r := c; r < n; r++ {
			if a[r][c] != 0 {
				p = r
				break
			}
		}
		if p < 0 {
			return true
		}
		a[c], a[p] = a[p], a[c]
		inv := refGFInv(a[c][c])
		for r := c + 1; r < n; r++ {
			f := rt.GFMul(a[r][c], inv)
			for k := c; k < n; k++ {
				a[r][k] ^= rt.GFMul(f, a[c][k])
			}
		}
	}
	return false
}

func coderCase(cauchy bool, maxD, maxP, length, g int) {
	d := 1 + rt.Choice("d", maxD)
	p := 1 + rt.Choice("p", maxP)
	var c Coder
	var err error
	if cauchy {
		c, err = NewCoderCauchy(d, p, g)
	} else {
		c, err = NewCoderPAR2Vandermonde(d, p, g)
	}
	rt.Assert(err == nil, "coder construction succeeds within limits")
	data := shards("d", d, length)
	orig := shards("d", d, length)
	parity := c.GenerateParity(data)
	sameShards(data, orig, "GenerateParity leaves the data shards unchanged")
	// parity row e, column-wise, is the matrix-vector product (spec arithmetic)
	for e := 0; e < p; e++ {
		for w := 0; w < length/2; w++ {
			var want uint16
			for i := 0; i < d; i++ {
				x := uint16(orig[i][2*w]) | uint16(orig[i][2*w+1])<<8
				want ^= rt.GFMul(uint16(c.parityMatrix.At(e, i)), x)
			}
			got := uint16(parity[e][2*w]) | uint16(parity[e][2*w+1])<<8
			rt.Assert(got == want, "parity shard == parity matrix times data")
		}
	}
	// erase any subset of data and parity shards
	missing, avail := 0, 0
	var missRows, availRows []int
	for i := 0; i < d; i++ {
		if rt.Bool("missData" + string(rune('0'+i))) {
			data[i] = nil
			missing++
			missRows = append(missRows, i)
		}
	}
	var usedParity []int
	for i := 0; i < p; i++ {
		if rt.Bool("missParity" + string(rune('0'+i))) {
			parity[i] = nil
		} else {
			avail++
			availRows = append(availRows, i)
			if len(usedParity) < missing {
				usedParity = append(usedParity, i)
			}
		}
	}
	kept := make([][]byte, d)
	for i := range data {
		kept[i] = data[i]
	}
	err = c.ReconstructData(data, parity)
	if missing == 0 {
		rt.Assert(err == nil, "nothing missing: no error")
	} else if missing > avail {
		_, isNE := err.(NotEnoughParityShardsError)
		rt.Assert(isNE, "too few parity shards: NotEnoughParityShardsError")
		rt.Reach("not-enough")
	} else if err != nil {
		_, isNE := err.(NotEnoughParityShardsError)
		rt.Assert(!isNE, "enough parity shards: not the not-enough error")
		rt.Assert(!cauchy, "Cauchy coder never fails within capability")
		// the error must be the format's own singularity: decide it independently
		sub := make([][]uint16, missing)
		for a := range sub {
			sub[a] = make([]uint16, missing)
			for b := range sub[a] {
				sub[a][b] = uint16(c.parityMatrix.At(usedParity[a], missRows[b]))
			}
		}
		rt.Assert(refSingular(sub), "error only when the system of the lowest available parity rows is singular")
		rt.Reach("singular")
	}
	if err == nil {
		for i := 0; i < d; i++ {
			rt.Assert(data[i] != nil, "every data shard present after success")
			if kept[i] != nil {
				rt.Assert(&data[i][0] == &kept[i][0], "supplied shards are not replaced")
			}
			for j := 0; j < length; j++ {
				rt.Assert(data[i][j] == orig[i][j], "restored / supplied shard == original")
			}
		}
		if missing > 0 {
			rt.Reach("reconstructed")
		}
	}
}

func VerifHarness_C07_cauchy() {
	coderCase(true, 3, 2, 2*(1+rt.Choice("words", 2)), 1+rt.Choice("g", 2))
}
func VerifHarness_C07_vandermonde() {
	coderCase(false, 3, 2, 2*(1+rt.Choice("words", 2)), 1+rt.Choice("g", 2))
}

// three parity shards with two data shards: every pattern with a gap between
// the used parity rows
func VerifHarness_C07_cauchy_gap()      { coderCase(true, 2, 3, 2, 1) }
func VerifHarness_C07_vandermonde_gap() { coderCase(false, 2, 3, 2, 1) }
func VerifHarness_C07_cauchy_big() {
	coderCase(true, 5, 3, []int{2, 18, 34}[rt.Choice("len", 3)], 1+rt.Choice("g", 3))
}
func VerifHarness_C07_vandermonde_big() {
	coderCase(false, 5, 3, []int{2, 18, 34}[rt.Choice("len", 3)], 1+rt.Choice("g", 3))
}

// C12 (c): through the public Coder.  GenerateParity and ReconstructData with
// 1..5 goroutines give the results of the single-goroutine coder, whatever
// strategy Coder.applyMatrix picks for the shard length.
func VerifHarness_C12_coder_goroutines() {
	g := 2 + rt.Choice("goroutines", 4)
	length := []int{2, 16, 30, 32, 34, 48, 62, 64, 66}[rt.Choice("length", 9)]
	c1, err1 := NewCoderCauchy(2, 2, 1)
	cg, errg := NewCoderCauchy(2, 2, g)
	rt.Assert(err1 == nil && errg == nil, "coders built")
	data := shards("d", 2, length)
	p1 := c1.GenerateParity(data)
	pg := cg.GenerateParity(data)
	sameShards(pg, p1, "GenerateParity: goroutine count does not change the result")
	// lose both data shards, reconstruct from the parity
	lost1 := [][]byte{nil, nil}
	lostg := [][]byte{nil, nil}
	e1 := c1.ReconstructData(lost1, p1)
	eg := cg.ReconstructData(lostg, p1)
	rt.Assert((e1 == nil) == (eg == nil), "ReconstructData: same outcome for every goroutine count")
	if e1 == nil && eg == nil {
		sameShards(lostg, lost1, "ReconstructData: goroutine count does not change the result")
	}
}
