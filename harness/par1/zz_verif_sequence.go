package par1

// PAR1: several operations in one process (hidden state between them).

import (
	rt "github.com/akalin/gopar/internal/zzverifrt"
)

func init() {
	rt.Register("C04_damage_after_verify", VerifHarness_C04_damage_after_verify)
	rt.Register("C10_two_shapes", VerifHarness_C10_two_shapes)
}

// Verify an intact file longer than 16 KiB, damage it in place beyond the
// first 16 KiB, Verify and Repair again.
func VerifHarness_C04_damage_after_verify() {
	s := p1Build([]string{"a"}, []int{16388}, 1, false)
	res, err := verify(s.fs, p1Index, VerifyOptions{})
	rt.Assert(err == nil && res.FileCounts.UsableDataFileCount == 1 && res.FileCounts.UnusableDataFileCount == 0, "usable data files == intact data files")
	d := append([]byte(nil), s.orig[0]...)
	d[[]int{5, 16384, 16387}[rt.Choice("at", 3)]] ^= 0x11
	s.fs.put(s.paths[0], d)
	res, err = verify(s.fs, p1Index, VerifyOptions{})
	rt.Assert(err == nil && res.FileCounts.UnusableDataFileCount == 1, "unusable data files == missing or corrupted data files")
	_, rerr := repair(s.fs, p1Index, RepairOptions{})
	if rerr != errStubSingular {
		rt.Assert(rerr == nil && s.intact(), "PAR1 Repair returned nil: every data file restored exactly")
	}
}

// Two sets of different shapes in one process (1 file x 12 volumes, then
// 11 files x 2 volumes, and the other way round): the second is created,
// verified including the full parity check, and repaired like a first one.
func VerifHarness_C10_two_shapes() {
	shapes := [][2][2]int{{{1, 12}, {11, 2}}, {{11, 2}, {1, 12}}, {{2, 3}, {3, 2}}}[rt.Choice("shapes", 3)]
	var s *p1Scenario
	for _, sh := range shapes {
		names := make([]string, sh[0])
		lens := make([]int, sh[0])
		for i := range names {
			names[i] = "g" + string(rune('a'+i))
			lens[i] = 1 + i%2
		}
		s = p1Build(names, lens, sh[1], false)
	}
	res, err := verify(s.fs, p1Index, VerifyOptions{VerifyAllData: true})
	rt.Assert(err == nil && res.AllDataOk && res.FileCounts.UnusableDataFileCount == 0, "an untouched set verifies clean including the full parity check")
	s.fs.remove(s.paths[0])
	_, rerr := repair(s.fs, p1Index, RepairOptions{})
	if rerr != errStubSingular {
		rt.Assert(rerr == nil && s.intact(), "PAR1 Repair returned nil: every data file restored exactly")
	}
}
