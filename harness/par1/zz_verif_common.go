package par1

// Harness machinery for PAR1: symbolic file system, and a contract stub of
// github.com/klauspost/reedsolomon (third-party SIMD code outside the repo):
// New records the shard counts; Encode / Verify / Reconstruct implement the PAR1
// matrix (parity row v = sum_i (i+1)^v * shard_i over GF(2^8) mod 0x11D).

import (
	"errors"
	"io"
	"io/fs"
	"os"
	"path"

	rt "github.com/akalin/gopar/internal/zzverifrt"
	"github.com/klauspost/reedsolomon"
)

type fsWrite struct {
	path string
	data []byte
}

type symFS struct {
	files     map[string][]byte
	order     []string
	writes    []fsWrite
	failRead  int
	failWrite int
	tornLen   int
	nRead     int
	nWrite    int
	cwd       string // when set, relative paths are resolved against it and cleaned
}

// resolve maps a path as the program spells it to the file it names.
func (f *symFS) resolve(p string) string {
	if f.cwd == "" {
		return p
	}
	if len(p) == 0 || p[0] != '/' {
		p = f.cwd + "/" + p
	}
	return path.Clean(p)
}

func newSymFS() *symFS { return &symFS{files: map[string][]byte{}, tornLen: -1} }

func (f *symFS) put(path string, data []byte) {
	if _, ok := f.files[path]; !ok {
		f.order = append(f.order, path)
	}
	f.files[path] = data
}

func (f *symFS) remove(path string) {
	if _, ok := f.files[path]; ok {
		delete(f.files, path)
		for i, p := range f.order {
			if p == path {
				f.order = append(f.order[:i:i], f.order[i+1:]...)
				break
			}
		}
	}
}

type ioFault struct{ op string }

func (e *ioFault) Error() string { return "injected I/O error during " + e.op }

func (f *symFS) ReadFile(path string) ([]byte, error) {
	path = f.resolve(path)
	f.nRead++
	if f.failRead == f.nRead {
		return nil, &ioFault{"read"}
	}
	if isDir(path) {
		// directories that contain the set exist: reading one is an error, not "missing"
		return nil, &ioFault{"read of a directory"}
	}
	data, ok := f.files[path]
	if !ok {
		return nil, &os.PathError{Op: "open", Path: path, Err: fs.ErrNotExist}
	}
	return append([]byte(nil), data...), nil
}

// isDir: the ancestors of the archive directory (and that directory itself).
func isDir(path string) bool { return path == "/" || path == "/d" || path == "." || path == ".." }

func (f *symFS) WriteFile(path string, data []byte) error {
	path = f.resolve(path)
	f.nWrite++
	if isDir(path) {
		return &ioFault{"write to a directory"}
	}
	if f.failWrite == f.nWrite {
		if f.tornLen >= 0 {
			n := f.tornLen
			if n > len(data) {
				n = len(data)
			}
			f.put(path, append([]byte(nil), data[:n]...))
		}
		return &ioFault{"write"}
	}
	f.writes = append(f.writes, fsWrite{path, append([]byte(nil), data...)})
	f.put(path, append([]byte(nil), data...))
	return nil
}

func bytesEqual(a, b []byte) bool {
	if len(a) != len(b) {
		return false
	}
	eq := true
	for i := range a {
		if a[i] != b[i] {
			eq = false
		}
	}
	return eq
}

// ---- GF(2^8) mod 0x11D, specification side ----

func gf8mul(c, x byte) byte {
	// c is concrete in every use; x may be symbolic (branch-free in x)
	var r byte
	for c != 0 {
		if c&1 != 0 {
			r ^= x
		}
		x = x<<1 ^ (0x1d & -(x >> 7))
		c >>= 1
	}
	return r
}

// log / antilog tables of GF(2^8) mod 0x11D (generator 2), built once from
// gf8mul; they serve the concrete-by-concrete products of the stub (matrix
// coefficients, elimination), which would otherwise dominate large sets.
var (
	gf8exp   [255]byte
	gf8log   [256]int
	gf8ready bool
)

func gf8tables() {
	if gf8ready {
		return
	}
	x := byte(1)
	for i := 0; i < 255; i++ {
		gf8exp[i] = x
		gf8log[x] = i
		x = gf8mul(2, x)
	}
	gf8ready = true
}

// gf8mulC multiplies two concrete elements.
func gf8mulC(a, b byte) byte {
	if a == 0 || b == 0 {
		return 0
	}
	gf8tables()
	return gf8exp[(gf8log[a]+gf8log[b])%255]
}

func gf8pow(a byte, e int) byte {
	if e == 0 {
		return 1
	}
	if a == 0 {
		return 0
	}
	gf8tables()
	return gf8exp[(gf8log[a]*e)%255]
}

func gf8inv(a byte) byte {
	if a == 0 {
		return 0
	}
	gf8tables()
	return gf8exp[(255-gf8log[a])%255]
}

// ---- contract stub of reedsolomon.Encoder ----

var stubPAR1Requested bool

type stubRS struct{ d, p int }

func stubWithPAR1Matrix() reedsolomon.Option {
	stubPAR1Requested = true
	return nil
}

func stubNew(dataShards, parityShards int, opts ...reedsolomon.Option) (reedsolomon.Encoder, error) {
	if dataShards <= 0 || parityShards <= 0 || dataShards+parityShards > 256 {
		return nil, reedsolomon.ErrInvShardNum
	}
	rt.Assert(stubPAR1Requested, "reedsolomon.New is asked for the PAR1 matrix")
	return &stubRS{dataShards, parityShards}, nil
}

func useReedSolomonStub() {
	stubPAR1Requested = false
	rt.Replace("github.com/klauspost/reedsolomon.WithPAR1Matrix", stubWithPAR1Matrix)
	rt.Replace("github.com/klauspost/reedsolomon.New", stubNew)
}

func (s *stubRS) coef(v, i int) byte { return gf8pow(byte(i+1), v) }

func (s *stubRS) check(shards [][]byte, nilOK bool) (int, error) {
	if len(shards) != s.d+s.p {
		return 0, reedsolomon.ErrTooFewShards
	}
	size := -1
	for _, sh := range shards {
		if sh == nil {
			if !nilOK {
				return 0, reedsolomon.ErrShardNoData
			}
			continue
		}
		if size == -1 {
			size = len(sh)
		} else if len(sh) != size {
			return 0, reedsolomon.ErrShardSize
		}
	}
	if size <= 0 {
		return 0, reedsolomon.ErrShardNoData
	}
	return size, nil
}

func (s *stubRS) parityOf(data [][]byte, v, size int) []byte {
	out := make([]byte, size)
	for i := 0; i < s.d; i++ {
		c := s.coef(v, i)
		for k := 0; k < size; k++ {
			out[k] ^= gf8mul(c, data[i][k])
		}
	}
	return out
}

func (s *stubRS) Encode(shards [][]byte) error {
	size, err := s.check(shards, false)
	if err != nil {
		return err
	}
	for v := 0; v < s.p; v++ {
		copy(shards[s.d+v], s.parityOf(shards[:s.d], v, size))
	}
	return nil
}

func (s *stubRS) Verify(shards [][]byte) (bool, error) {
	size, err := s.check(shards, false)
	if err != nil {
		return false, err
	}
	ok := true
	for v := 0; v < s.p; v++ {
		if !bytesEqual(shards[s.d+v], s.parityOf(shards[:s.d], v, size)) {
			ok = false
		}
	}
	return ok, nil
}

var errStubSingular = errors.New("matrix is singular")

func (s *stubRS) Reconstruct(shards [][]byte) error {
	size, err := s.check(shards, true)
	if err != nil {
		return err
	}
	present := 0
	missingData := 0
	for i, sh := range shards {
		if sh != nil {
			present++
		} else if i < s.d {
			missingData++
		}
	}
	if present == len(shards) {
		return nil
	}
	if present < s.d {
		return reedsolomon.ErrTooFewShards
	}
	// first d present rows of the encoding matrix (identity on top of the PAR1 rows)
	var rows []int
	for i := range shards {
		if shards[i] != nil && len(rows) < s.d {
			rows = append(rows, i)
		}
	}
	m := make([][]byte, s.d)
	for r, idx := range rows {
		m[r] = make([]byte, 2*s.d)
		for c := 0; c < s.d; c++ {
			if idx < s.d {
				if idx == c {
					m[r][c] = 1
				}
			} else {
				m[r][c] = s.coef(idx-s.d, c)
			}
		}
		m[r][s.d+r] = 1
	}
	// Gauss-Jordan on the concrete matrix
	for c := 0; c < s.d; c++ {
		p := -1
		for r := c; r < s.d; r++ {
			if m[r][c] != 0 {
				p = r
				break
			}
		}
		if p < 0 {
			return errStubSingular
		}
		m[c], m[p] = m[p], m[c]
		inv := gf8inv(m[c][c])
		for k := range m[c] {
			m[c][k] = gf8mulC(inv, m[c][k])
		}
		for r := 0; r < s.d; r++ {
			if r != c && m[r][c] != 0 {
				f := m[r][c]
				for k := range m[r] {
					m[r][k] ^= gf8mulC(f, m[c][k])
				}
			}
		}
	}
	data := make([][]byte, s.d)
	for i := 0; i < s.d; i++ {
		if shards[i] != nil {
			data[i] = shards[i]
			continue
		}
		out := make([]byte, size)
		for r, idx := range rows {
			c := m[i][s.d+r]
			if c == 0 {
				continue
			}
			for k := 0; k < size; k++ {
				out[k] ^= gf8mul(c, shards[idx][k])
			}
		}
		data[i] = out
	}
	for i := 0; i < s.d; i++ {
		shards[i] = data[i]
	}
	for v := 0; v < s.p; v++ {
		if shards[s.d+v] == nil {
			shards[s.d+v] = s.parityOf(data, v, size)
		}
	}
	return nil
}

func (s *stubRS) EncodeIdx(dataShard []byte, idx int, parity [][]byte) error {
	panic("stub: EncodeIdx not used")
}
func (s *stubRS) ReconstructData(shards [][]byte) error { panic("stub: ReconstructData not used") }
func (s *stubRS) ReconstructSome(shards [][]byte, required []bool) error {
	panic("stub: ReconstructSome not used")
}
func (s *stubRS) Update(shards [][]byte, newDatashards [][]byte) error {
	panic("stub: Update not used")
}
func (s *stubRS) Split(data []byte) ([][]byte, error) { panic("stub: Split not used") }
func (s *stubRS) Join(dst io.Writer, shards [][]byte, outSize int) error {
	panic("stub: Join not used")
}
