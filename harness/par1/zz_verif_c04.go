package par1

// C04 (round trip), C10 (PAR 1.0 layout in both directions) and the PAR1 side
// of C02 / C13 / C14 / C15 / C18 / C19.

import (
	"crypto/md5"

	rt "github.com/akalin/gopar/internal/zzverifrt"
)

func init() {
	rt.Register("C04_roundtrip", VerifHarness_C04_roundtrip)
	rt.Register("C04_roundtrip_unicode", VerifHarness_C04_roundtrip_unicode)
	rt.Register("C10_writer", VerifHarness_C10_writer)
	rt.Register("C10_reader", VerifHarness_C10_reader)
	rt.Register("C10_reader_many", VerifHarness_C10_reader_many)
	rt.Register("C13_par1_truncate", VerifHarness_C13_par1_truncate)
	rt.Register("C13_par1_corrupt", VerifHarness_C13_par1_corrupt)
	rt.Register("C19_par1_fields", VerifHarness_C19_par1_fields)
	rt.Register("C19_par1_long_name", VerifHarness_C19_par1_long_name)
	rt.Register("C15_par1_names", VerifHarness_C15_par1_names)
	rt.Register("C18_par1_faults", VerifHarness_C18_par1_faults)
	rt.Register("C18_par1_create_faults", VerifHarness_C18_par1_create_faults)
}

const (
	p1Dir   = "/d"
	p1Index = "/d/s.par"
)

type p1Scenario struct {
	fs    *symFS
	paths []string
	orig  [][]byte
	vols  int
}

func p1VolPath(i int) string { return "/d/s.p0" + string(rune('0'+i)) }

func p1Build(names []string, lens []int, vols int, symbolic bool) *p1Scenario {
	useReedSolomonStub()
	s := &p1Scenario{fs: newSymFS(), vols: vols}
	for i, n := range lens {
		var data []byte
		if symbolic {
			data = rt.Bytes("f"+string(rune('0'+i)), n)
		} else {
			data = make([]byte, n)
			for j := range data {
				data[j] = byte(16*(i+1) + j + 1)
			}
		}
		p := p1Dir + "/" + names[i]
		s.paths = append(s.paths, p)
		s.orig = append(s.orig, data)
		s.fs.put(p, append([]byte(nil), data...))
	}
	err := create(s.fs, p1Index, s.paths, CreateOptions{NumParityFiles: vols})
	rt.Assert(err == nil, "PAR1 Create succeeds")
	return s
}

func (s *p1Scenario) intact() bool {
	ok := true
	for i, p := range s.paths {
		d, present := s.fs.files[p]
		if !present || !bytesEqual(d, s.orig[i]) {
			ok = false
		}
	}
	return ok
}

// p1Check damages the set (every subset of data files deleted or overwritten,
// every subset of volumes deleted), then checks Verify's counts against the
// truth and Repair's outcome.
func p1Check(s *p1Scenario) {
	badData := 0
	for i, p := range s.paths {
		switch rt.Choice("data"+string(rune('0'+i)), 3) {
		case 1:
			s.fs.remove(p)
			badData++
		case 2:
			// overwritten with different content of the same length + 1
			s.fs.put(p, append(append([]byte(nil), s.orig[i]...), 0x5A))
			badData++
		}
	}
	goodVols := 0
	lastVol := 0
	for v := 1; v <= s.vols; v++ {
		if rt.Bool("dropVol" + string(rune('0'+v))) {
			s.fs.remove(p1VolPath(v))
		} else {
			goodVols++
			lastVol = v
		}
	}
	w0 := len(s.fs.writes)
	res, err := verify(s.fs, p1Index, VerifyOptions{VerifyAllData: true})
	rt.Assert(len(s.fs.writes) == w0, "PAR1 Verify writes nothing")
	rt.Assert(err == nil, "PAR1 Verify returns a result for a set with a valid index")
	if err == nil {
		c := res.FileCounts
		rt.Assert(c.UnusableDataFileCount == badData, "unusable data files == missing or corrupted data files")
		rt.Assert(c.UsableDataFileCount == len(s.paths)-badData, "usable data files == intact data files")
		rt.Assert(c.UsableParityFileCount == goodVols, "usable parity volumes == present intact volumes")
		if goodVols > 0 {
			rt.Assert(c.UnusableParityFileCount == lastVol-goodVols, "missing volumes below the highest present one are counted unusable")
		}
		if badData == 0 && goodVols == s.vols {
			rt.Assert(res.AllDataOk, "an untouched set verifies clean including the full parity check")
			rt.Reach("clean")
		}
		rt.Assert(c.RepairNeeded() == (badData > 0), "repair needed iff a data file is unusable")
		rt.Assert(c.RepairPossible() == (badData <= goodVols), "repair possible iff unusable data files <= usable volumes")
	}
	before := map[string][]byte{}
	for _, p := range s.fs.order {
		before[p] = s.fs.files[p]
	}
	rres, rerr := repair(s.fs, p1Index, RepairOptions{DoubleCheck: rt.Bool("doubleCheck")})
	for _, w := range s.fs.writes[w0:] {
		idx := -1
		for i, p := range s.paths {
			if p == w.path {
				idx = i
			}
		}
		rt.Assert(idx >= 0, "PAR1 Repair writes only protected files")
		if idx >= 0 {
			rt.Assert(bytesEqual(w.data, s.orig[idx]), "every file PAR1 Repair writes has exactly the protected bytes")
		}
	}
	rt.Assert(len(rres.RepairedPaths) == len(s.fs.writes)-w0, "RepairedPaths lists exactly the files written")
	for p, d := range before {
		prot := false
		for _, q := range s.paths {
			if p == q {
				prot = true
			}
		}
		if !prot {
			rt.Assert(bytesEqual(s.fs.files[p], d), "parity volumes and bystanders unchanged by Repair")
		}
	}
	if rerr == nil {
		rt.Assert(s.intact(), "PAR1 Repair returned nil: every data file restored exactly")
	}
	if badData == 0 {
		rt.Assert(rerr == nil, "nothing to repair: no error")
	} else if badData <= goodVols {
		if rerr != nil {
			rt.Assert(rerr == errStubSingular, "within capacity the only permitted failure is the PAR1 matrix's own singularity")
		}
		rt.Reach("repairable")
	} else {
		rt.Assert(rerr != nil, "beyond capacity Repair reports an error")
		rt.Assert(RepairErrorMeansRepairNecessaryButNotPossible(rerr), "beyond capacity the error is classified as needed-but-impossible")
		rt.Reach("unrepairable")
	}
}

func VerifHarness_C04_roundtrip() {
	cfg := []struct {
		lens []int
		vols int
	}{{[]int{3}, 1}, {[]int{2, 3}, 2}, {[]int{0, 2}, 1}, {[]int{1, 0, 3}, 2}}[rt.Choice("config", 4)]
	names := []string{"a", "b", "c"}[:len(cfg.lens)]
	s := p1Build(names, cfg.lens, cfg.vols, true)
	s.fs.put(p1Dir+"/bystander", []byte("x"))
	p1Check(s)
}

func VerifHarness_C04_roundtrip_unicode() {
	// non-ASCII name, a name needing a surrogate pair, unequal sizes, an empty file
	s := p1Build([]string{"é.txt", "𝄞"}, []int{2, 0}, 2, false)
	p1Check(s)
}

// ---- C10 writer: independent reader of the PAR 1.0 layout ----

func le64p(b []byte) uint64 {
	return uint64(b[0]) | uint64(b[1])<<8 | uint64(b[2])<<16 | uint64(b[3])<<24 |
		uint64(b[4])<<32 | uint64(b[5])<<40 | uint64(b[6])<<48 | uint64(b[7])<<56
}

func utf16le(s string) []byte {
	var out []byte
	for _, r := range s {
		if r >= 0x10000 {
			r -= 0x10000
			hi, lo := 0xd800+(r>>10), 0xdc00+(r&0x3ff)
			out = append(out, byte(hi), byte(hi>>8), byte(lo), byte(lo>>8))
		} else {
			out = append(out, byte(r), byte(r>>8))
		}
	}
	return out
}

func refCheckVolume(data []byte, volNum uint64, names []string, contents [][]byte, payload []byte, what string) {
	rt.Assert(len(data) >= 96, what+": 96-byte header")
	if len(data) < 96 {
		return
	}
	rt.Assert(bytesEqual(data[0:8], []byte{'P', 'A', 'R', 0, 0, 0, 0, 0}), what+": identification string")
	rt.Assert(le64p(data[8:16])&0xffffffff == 0x00010000, what+": version 1.0")
	ch := md5.Sum(data[0x20:])
	rt.Assert(bytesEqual(data[0x10:0x20], ch[:]), what+": control hash over everything from offset 0x20")
	var setIn []byte
	for _, c := range contents {
		h := md5.Sum(c)
		setIn = append(setIn, h[:]...)
	}
	sh := md5.Sum(setIn)
	rt.Assert(bytesEqual(data[0x20:0x30], sh[:]), what+": set hash over the MD5s of the saved files in order")
	rt.Assert(le64p(data[0x30:0x38]) == volNum, what+": volume number")
	rt.Assert(le64p(data[0x38:0x40]) == uint64(len(names)), what+": file count")
	rt.Assert(le64p(data[0x40:0x48]) == 0x60, what+": file list offset")
	off := 0x60
	for i, n := range names {
		nb := utf16le(n)
		esz := 0x38 + len(nb)
		rt.Assert(off+esz <= len(data), what+": entry inside the file")
		if off+esz > len(data) {
			return
		}
		e := data[off : off+esz]
		rt.Assert(le64p(e[0:8]) == uint64(esz), what+": entry size")
		rt.Assert(le64p(e[8:16])&1 == 1, what+": status bit 0 (saved in the parity set)")
		rt.Assert(le64p(e[16:24]) == uint64(len(contents[i])), what+": file length")
		h := md5.Sum(contents[i])
		rt.Assert(bytesEqual(e[24:40], h[:]), what+": file MD5")
		rt.Assert(bytesEqual(e[40:56], h[:]), what+": MD5 of the first 16 KiB")
		rt.Assert(bytesEqual(e[56:], nb), what+": UTF-16LE name")
		off += esz
	}
	rt.Assert(le64p(data[0x48:0x50]) == uint64(off-0x60), what+": file list size")
	rt.Assert(le64p(data[0x50:0x58]) == uint64(off), what+": data offset")
	rt.Assert(le64p(data[0x58:0x60]) == uint64(len(data)-off), what+": data size")
	rt.Assert(bytesEqual(data[off:], payload), what+": payload")
}

func VerifHarness_C10_writer() {
	cfg := []struct {
		names []string
		lens  []int
		vols  int
	}{{[]string{"a"}, []int{3}, 2}, {[]string{"é", "b"}, []int{1, 3}, 2}, {[]string{"𝄞", "b", "c"}, []int{2, 0, 3}, 1}}[rt.Choice("config", 3)]
	s := p1Build(cfg.names, cfg.lens, cfg.vols, true)
	rt.Assert(len(s.fs.writes) == 1+cfg.vols, "index plus one file per volume written")
	rt.Assert(s.fs.writes[0].path == p1Index, "index written first")
	refCheckVolume(s.fs.writes[0].data, 0, cfg.names, s.orig, nil, "index")
	// longest file determines the shard size; volume v = sum_i i^(v-1) * file_i
	size := 0
	for _, c := range s.orig {
		if len(c) > size {
			size = len(c)
		}
	}
	for v := 1; v <= cfg.vols; v++ {
		want := make([]byte, size)
		for i, c := range s.orig {
			coef := gf8pow(byte(i+1), v-1)
			for k := range c {
				want[k] ^= gf8mul(coef, c[k])
			}
		}
		w := s.fs.writes[v]
		rt.Assert(w.path == p1VolPath(v), "volume file name <base>.pNN")
		refCheckVolume(w.data, uint64(v), cfg.names, s.orig, want, "volume")
	}
}

// ---- C10 reader: a set from a reference writer with a comment and entries
// that are not saved in the parity set ----

func put64p(v uint64) []byte {
	b := make([]byte, 8)
	for i := range b {
		b[i] = byte(v >> (8 * uint(i)))
	}
	return b
}

type refEntry struct {
	name  string
	data  []byte
	saved bool
}

// refProgramID is the generating program's id, the high 32 bits of the PAR 1.0
// version field (outside the control hash); a conformant reader ignores it.
var refProgramID uint32

func refVolume(entries []refEntry, volNum uint64, payload []byte) []byte {
	var list []byte
	var setIn []byte
	for _, e := range entries {
		nb := utf16le(e.name)
		h := md5.Sum(e.data)
		st := uint64(0)
		if e.saved {
			st = 1
			setIn = append(setIn, h[:]...)
		}
		list = append(list, put64p(uint64(0x38+len(nb)))...)
		list = append(list, put64p(st)...)
		list = append(list, put64p(uint64(len(e.data)))...)
		list = append(list, h[:]...)
		list = append(list, h[:]...)
		list = append(list, nb...)
	}
	sh := md5.Sum(setIn)
	var rest []byte
	rest = append(rest, sh[:]...)
	rest = append(rest, put64p(volNum)...)
	rest = append(rest, put64p(uint64(len(entries)))...)
	rest = append(rest, put64p(0x60)...)
	rest = append(rest, put64p(uint64(len(list)))...)
	rest = append(rest, put64p(uint64(0x60+len(list)))...)
	rest = append(rest, put64p(uint64(len(payload)))...)
	rest = append(rest, list...)
	rest = append(rest, payload...)
	ch := md5.Sum(rest)
	out := []byte{'P', 'A', 'R', 0, 0, 0, 0, 0}
	out = append(out, put64p(0x00010000|uint64(refProgramID)<<32)...)
	out = append(out, ch[:]...)
	return append(out, rest...)
}

func VerifHarness_C10_reader() {
	useReedSolomonStub()
	refProgramID = rt.U32("programID")
	// three entries; the non-saved one is at position `pos`
	pos := rt.Choice("nonSavedAt", 3)
	entries := []refEntry{}
	saved := []refEntry{{"a", rt.Bytes("a", 3), true}, {"𝄞b", rt.Bytes("b", 2), true}}
	k := 0
	for i := 0; i < 3; i++ {
		if i == pos {
			entries = append(entries, refEntry{"skip", []byte{7, 7, 7, 7, 7}, false})
		} else {
			entries = append(entries, saved[k])
			k++
		}
	}
	size := 3
	vol := func(v int) []byte {
		p := make([]byte, size)
		for i, e := range saved {
			c := gf8pow(byte(i+1), v-1)
			for j := range e.data {
				p[j] ^= gf8mul(c, e.data[j])
			}
		}
		return p
	}
	fs := newSymFS()
	fs.put(p1Index, refVolume(entries, 0, []byte("a comment")))
	fs.put(p1VolPath(1), refVolume(entries, 1, vol(1)))
	fs.put(p1VolPath(2), refVolume(entries, 2, vol(2)))
	for _, e := range entries {
		fs.put(p1Dir+"/"+e.name, append([]byte(nil), e.data...))
	}
	res, err := verify(fs, p1Index, VerifyOptions{VerifyAllData: true})
	rt.Assert(err == nil, "a conformant set with a comment and a non-saved entry verifies")
	if err == nil {
		rt.Assert(res.FileCounts.UsableDataFileCount == 2 && res.FileCounts.UnusableDataFileCount == 0, "only saved entries are counted")
		rt.Assert(res.AllDataOk, "full parity check passes on the conformant set")
	}
	// lose one saved file: it must be restored under its own name with its own content
	lost := rt.Choice("lost", 2)
	fs.remove(p1Dir + "/" + saved[lost].name)
	rres, rerr := repair(fs, p1Index, RepairOptions{})
	rt.Assert(rerr == nil, "one lost file with two volumes is repaired")
	if rerr == nil {
		d, ok := fs.files[p1Dir+"/"+saved[lost].name]
		rt.Assert(ok && bytesEqual(d, saved[lost].data), "the lost file is restored exactly, under its own name")
		rt.Assert(len(rres.RepairedPaths) == 1, "one repaired path")
	}
	d, ok := fs.files[p1Dir+"/skip"]
	rt.Assert(ok && bytesEqual(d, []byte{7, 7, 7, 7, 7}), "the non-saved file is left alone")
}

// A conformant index with more than 256 entries, most of them not saved in the
// parity set: the volumes are still all found and two lost files are restored
// from the two volumes.
func VerifHarness_C10_reader_many() {
	useReedSolomonStub()
	extra := []int{253, 254, 260}[rt.Choice("nonSaved", 3)] // 255, 256 (control), 262 entries in total
	saved := []refEntry{{"a", rt.Bytes("a", 2), true}, {"b", rt.Bytes("b", 2), true}}
	entries := []refEntry{saved[0]}
	for i := 0; i < extra; i++ {
		name := "n" + string(rune('0'+i/100)) + string(rune('0'+i/10%10)) + string(rune('0'+i%10))
		entries = append(entries, refEntry{name, []byte{byte(i)}, false})
	}
	entries = append(entries, saved[1])
	vol := func(v int) []byte {
		p := make([]byte, 2)
		for i, e := range saved {
			c := gf8pow(byte(i+1), v-1)
			for j := range e.data {
				p[j] ^= gf8mul(c, e.data[j])
			}
		}
		return p
	}
	fs := newSymFS()
	fs.put(p1Index, refVolume(entries, 0, []byte("c")))
	fs.put(p1VolPath(1), refVolume(entries, 1, vol(1)))
	fs.put(p1VolPath(2), refVolume(entries, 2, vol(2)))
	res, err := verify(fs, p1Index, VerifyOptions{})
	rt.Assert(err == nil, "a conformant set with many non-saved entries verifies")
	if err == nil {
		rt.Assert(res.FileCounts.UnusableDataFileCount == 2 && res.FileCounts.UsableParityFileCount == 2, "only saved entries are counted; both volumes are found")
	}
	_, rerr := repair(fs, p1Index, RepairOptions{})
	rt.Assert(rerr == nil, "two lost files with two volumes are repaired")
	for _, e := range saved {
		d, ok := fs.files[p1Dir+"/"+e.name]
		rt.Assert(ok && bytesEqual(d, e.data), "the lost file is restored exactly, under its own name")
	}
}

// Long names in a conformant index (255 .. 300 UTF-16 units, one of them in an
// entry that is not saved in the set): read without panic, verified, repaired.
func VerifHarness_C19_par1_long_name() {
	useReedSolomonStub()
	n := []int{255, 256, 257, 300}[rt.Choice("units", 4)]
	long := make([]byte, n)
	for i := range long {
		long[i] = byte('a' + i%26)
	}
	a := refEntry{"a", rt.Bytes("a", 2), true}
	entries := []refEntry{{string(long), []byte{1}, rt.Bool("longSaved")}, a}
	var saved []refEntry
	for _, e := range entries {
		if e.saved {
			saved = append(saved, e)
		}
	}
	p := make([]byte, 2)
	for i, e := range saved {
		for j := range e.data {
			p[j] ^= gf8mul(gf8pow(byte(i+1), 0), e.data[j])
		}
	}
	fs := newSymFS()
	fs.put(p1Index, refVolume(entries, 0, nil))
	fs.put(p1VolPath(1), refVolume(entries, 1, p))
	for _, e := range entries {
		fs.put(p1Dir+"/"+e.name, append([]byte(nil), e.data...))
	}
	res, err := verify(fs, p1Index, VerifyOptions{})
	rt.Assert(err == nil && res.FileCounts.UnusableDataFileCount == 0, "a conformant set with a long file name verifies")
	fs.remove(p1Dir + "/a")
	_, rerr := repair(fs, p1Index, RepairOptions{})
	d, ok := fs.files[p1Dir+"/a"]
	rt.Assert(rerr == nil && ok && bytesEqual(d, a.data), "the lost file is restored exactly, under its own name")
}

// ---- PAR1 side of C13 / C19 / C15 / C18 ----

func p1Robust(fs *symFS, orig map[string][]byte) {
	w0 := len(fs.writes)
	verify(fs, p1Index, VerifyOptions{VerifyAllData: true})
	rt.Assert(len(fs.writes) == w0, "PAR1 Verify writes nothing")
	repair(fs, p1Index, RepairOptions{DoubleCheck: rt.Bool("doubleCheck")})
	for _, w := range fs.writes[w0:] {
		o, ok := orig[w.path]
		rt.Assert(ok && bytesEqual(w.data, o), "PAR1 Repair writes only exact originals")
	}
}

func p1Small() (*p1Scenario, map[string][]byte) {
	s := p1Build([]string{"a", "b"}, []int{3, 2}, 2, false)
	orig := map[string][]byte{}
	for i, p := range s.paths {
		orig[p] = s.orig[i]
	}
	return s, orig
}

func VerifHarness_C13_par1_truncate() {
	s, orig := p1Small()
	target := []string{p1Index, p1VolPath(1), p1VolPath(2)}[rt.Choice("file", 3)]
	data := s.fs.files[target]
	s.fs.put(target, append([]byte(nil), data[:rt.Choice("cut", len(data)+1)]...))
	switch rt.Choice("dataState", 3) {
	case 1:
		s.fs.remove(s.paths[0])
	case 2:
		s.fs.remove(s.paths[0])
		s.fs.remove(p1VolPath(1))
		s.fs.remove(p1VolPath(2))
	}
	p1Robust(s.fs, orig)
}

func VerifHarness_C13_par1_corrupt() {
	s, orig := p1Small()
	target := []string{p1Index, p1VolPath(1)}[rt.Choice("file", 2)]
	data := append([]byte(nil), s.fs.files[target]...)
	off := rt.Choice("offset", len(data))
	v := rt.Byte("value")
	rt.Assume(v != data[off])
	data[off] = v
	s.fs.put(target, data)
	if rt.Bool("damageData") {
		s.fs.remove(s.paths[0])
	}
	p1Robust(s.fs, orig)
}

var (
	p1Counts  = []uint64{0, 1, 2, 3, 255, 256, 257, 1 << 31, 1 << 63, 1<<64 - 1}
	p1Sizes   = []uint64{0, 1, 0x37, 0x38, 0x39, 0x3a, 0x3b, 1 << 31, 1 << 63, 1<<64 - 1}
	p1Lengths = []uint64{0, 1, 2, 3, 4, 5, 1 << 31, 1 << 63, 1<<64 - 1}
)

// every numeric field of the header / entries at boundary values, control hash recomputed
func VerifHarness_C19_par1_fields() {
	useReedSolomonStub()
	entries := []refEntry{{"a", []byte{1, 2, 3}, true}}
	vol := []byte{1, 2, 3}
	mutate := func(data []byte) []byte {
		out := append([]byte(nil), data...)
		switch rt.Choice("field", 7) {
		case 0: // volume number
			copy(out[0x30:], put64p([]uint64{0, 1, 2, 99, 100, 1 << 63}[rt.Choice("volNum", 6)]))
		case 1: // file count
			copy(out[0x38:], put64p(p1Counts[rt.Choice("count", len(p1Counts))]))
		case 2: // file list size
			copy(out[0x48:], put64p(p1Sizes[rt.Choice("listSize", len(p1Sizes))]))
		case 3: // data offset
			copy(out[0x50:], put64p(p1Sizes[rt.Choice("dataOff", len(p1Sizes))]))
		case 4: // data size
			copy(out[0x58:], put64p(p1Lengths[rt.Choice("dataSize", len(p1Lengths))]))
		case 5: // entry size
			copy(out[0x60:], put64p(p1Sizes[rt.Choice("entrySize", len(p1Sizes))]))
		case 6: // file length
			copy(out[0x70:], put64p(p1Lengths[rt.Choice("fileLen", len(p1Lengths))]))
		}
		ch := md5.Sum(out[0x20:])
		copy(out[0x10:], ch[:])
		return out
	}
	fs := newSymFS()
	idx := refVolume(entries, 0, nil)
	v1 := refVolume(entries, 1, vol)
	if rt.Bool("mutateVolume") {
		v1 = mutate(v1)
	} else {
		idx = mutate(idx)
	}
	fs.put(p1Index, idx)
	fs.put(p1VolPath(1), v1)
	if !rt.Bool("dataMissing") {
		fs.put(p1Dir+"/a", []byte{1, 2, 3})
	}
	p1Robust(fs, map[string][]byte{p1Dir + "/a": {1, 2, 3}})
}

// declared names: everything read or written stays in the index file's directory
func VerifHarness_C15_par1_names() {
	useReedSolomonStub()
	n := 1 + rt.Choice("len", 4)
	nb := rt.Bytes("name", n)
	for _, c := range nb {
		rt.Assume(rt.OneOf(c, "./\\a"))
	}
	name := string(nb)
	entries := []refEntry{{name, []byte{1, 2, 3}, true}}
	fs := newSymFS()
	fs.put(p1Index, refVolume(entries, 0, nil))
	fs.put(p1VolPath(1), refVolume(entries, 1, []byte{1, 2, 3}))
	repair(fs, p1Index, RepairOptions{})
	for _, w := range fs.writes {
		ok := len(w.path) > len(p1Dir)+1 && w.path[:len(p1Dir)+1] == p1Dir+"/"
		for i := len(p1Dir) + 1; i < len(w.path); i++ {
			if w.path[i] == '/' {
				ok = false
			}
		}
		rt.Assert(ok && w.path != p1Dir+"/..", "PAR1 Repair writes only directly inside the index file's directory")
		rt.Reach("written")
	}
}

func VerifHarness_C18_par1_faults() {
	s := p1Build([]string{"a", "b", "c"}, []int{3, 2, 1}, 2, false)
	// two files to repair, so that a fault can hit after the first write completed
	s.fs.remove(s.paths[0])
	s.fs.remove(s.paths[1])
	probe := newSymFS()
	for _, p := range s.fs.order {
		probe.put(p, s.fs.files[p])
	}
	_, perr := repair(probe, p1Index, RepairOptions{})
	rt.Assert(perr == nil, "fault-free PAR1 Repair succeeds")
	s.fs.nRead, s.fs.nWrite, s.fs.writes = 0, 0, nil
	if rt.Bool("writeFault") {
		s.fs.failWrite = 1 + rt.Choice("write#", probe.nWrite)
		s.fs.tornLen = []int{-1, 0, 1}[rt.Choice("torn", 3)]
	} else {
		s.fs.failRead = 1 + rt.Choice("read#", probe.nRead)
	}
	res, err := repair(s.fs, p1Index, RepairOptions{})
	rt.Assert(err != nil, "a failed read or write makes PAR1 Repair return an error")
	rt.Assert(len(res.RepairedPaths) == len(s.fs.writes), "RepairedPaths lists exactly the files whose write completed, also when a later write fails")
	for i, w := range s.fs.writes {
		if i < len(res.RepairedPaths) {
			rt.Assert(res.RepairedPaths[i] == w.path, "RepairedPaths lists exactly the files whose write completed, also when a later write fails")
		}
	}
	s.fs.failRead, s.fs.failWrite, s.fs.nRead, s.fs.nWrite = 0, 0, 0, 0
	_, err2 := repair(s.fs, p1Index, RepairOptions{})
	rt.Assert(err2 == nil && s.intact(), "re-run after the fault restores the file")
}

// PAR1 Create and Verify: a fault at each read or write in turn.
func VerifHarness_C18_par1_create_faults() {
	useReedSolomonStub()
	mk := func() *symFS {
		fs := newSymFS()
		fs.put(p1Dir+"/a", []byte{1, 2, 3})
		fs.put(p1Dir+"/b", []byte{4})
		return fs
	}
	paths := []string{p1Dir + "/a", p1Dir + "/b"}
	ref := mk()
	rt.Assert(create(ref, p1Index, paths, CreateOptions{NumParityFiles: 2}) == nil, "fault-free PAR1 Create succeeds")
	fs := mk()
	if rt.Bool("readFault") {
		fs.failRead = 1 + rt.Choice("read#", 2)
	} else {
		fs.failWrite = 1 + rt.Choice("write#", 3)
		fs.tornLen = []int{-1, 0, 50}[rt.Choice("torn", 3)]
	}
	err := create(fs, p1Index, paths, CreateOptions{NumParityFiles: 2})
	rt.Assert(err != nil, "a failed read or write makes PAR1 Create return an error")
	rt.Assert(bytesEqual(fs.files[paths[0]], []byte{1, 2, 3}) && bytesEqual(fs.files[paths[1]], []byte{4}), "input files untouched")
	fs.failRead, fs.failWrite, fs.nRead, fs.nWrite = 0, 0, 0, 0
	rt.Assert(create(fs, p1Index, paths, CreateOptions{NumParityFiles: 2}) == nil, "re-run after the fault succeeds")
	for _, w := range ref.writes {
		rt.Assert(bytesEqual(fs.files[w.path], w.data), "re-run reaches the fault-free final state")
	}
	// Verify with a failing read (other than a missing file) reports an error
	fs.nRead = 0
	_, verr := verify(fs, p1Index, VerifyOptions{})
	rt.Assert(verr == nil, "fault-free PAR1 Verify returns a result")
	n := fs.nRead
	fs.nRead = 0
	fs.failRead = 1 + rt.Choice("vread#", n)
	_, verr = verify(fs, p1Index, VerifyOptions{})
	rt.Assert(verr != nil, "a failed read makes PAR1 Verify return an error")
}
