package par1

// PAR1 at the 16 KiB boundary of the "16k hash": a file of exactly 16384 (and
// 16385) bytes through the C04 scenario checks, and a parity volume whose data
// was altered beyond the first 16 KiB with its control hash recomputed (C02:
// Repair never writes bytes that are not the protected ones).

import (
	"crypto/md5"

	rt "github.com/akalin/gopar/internal/zzverifrt"
)

func init() {
	rt.Register("C04_sixteenk", VerifHarness_C04_sixteenk)
	rt.Register("C02_par1_garbage_parity", VerifHarness_C02_par1_garbage_parity)
}

func VerifHarness_C04_sixteenk() {
	n := 16384 + rt.Choice("over", 2)
	s := p1Build([]string{"a"}, []int{n}, 1, false)
	p1Check(s)
}

func VerifHarness_C02_par1_garbage_parity() {
	n := []int{3, 16386}[rt.Choice("size", 2)]
	s := p1Build([]string{"a"}, []int{n}, 1, false)
	vol := append([]byte(nil), s.fs.files[p1VolPath(1)]...)
	// the parity payload is the tail of the volume; alter its last byte (beyond
	// the first 16 KiB for the long file) and recompute the control hash
	vol[len(vol)-1] ^= rt.Byte("flip")
	h := md5.Sum(vol[0x20:])
	copy(vol[0x10:0x20], h[:])
	s.fs.put(p1VolPath(1), vol)
	s.fs.remove(s.paths[0])
	w0 := len(s.fs.writes)
	res, err := repair(s.fs, p1Index, RepairOptions{DoubleCheck: rt.Bool("doubleCheck")})
	for _, w := range s.fs.writes[w0:] {
		rt.Assert(w.path == s.paths[0] && bytesEqual(w.data, s.orig[0]), "every file PAR1 Repair writes has exactly the protected bytes")
		rt.Reach("written")
	}
	rt.Assert(len(res.RepairedPaths) == len(s.fs.writes)-w0, "RepairedPaths lists exactly the files written")
	if err == nil {
		rt.Assert(s.intact(), "PAR1 Repair returned nil: the file is restored exactly")
	} else {
		rt.Reach("rejected")
	}
}
