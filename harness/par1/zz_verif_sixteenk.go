package par1

// PAR1 at the 16 KiB boundary of the "16k hash": a file of exactly 16384 (and
// 16385) bytes through the C04 scenario checks, and a parity volume whose data
// was altered beyond the first 16 KiB with its control hash recomputed (C02:
// Repair never writes bytes that are not the protected ones).

import (
	"crypto/md5"

	rt "github.com/akalin/gopar/internal/zzverifrt"
)

func init() {
	rt.Register("C04_sixteenk", VerifHarness_C04_sixteenk)
	rt.Register("C04_max_volumes", VerifHarness_C04_max_volumes)
	rt.Register("C04_max_shards", VerifHarness_C04_max_shards)
	rt.Register("C02_par1_garbage_parity", VerifHarness_C02_par1_garbage_parity)
}

func VerifHarness_C04_sixteenk() {
	n := []int{16384, 16385, 65535, 65536}[rt.Choice("size", 4)]
	s := p1Build([]string{"a"}, []int{n}, 1, false)
	p1Check(s)
}

func VerifHarness_C02_par1_garbage_parity() {
	n := []int{3, 16386}[rt.Choice("size", 2)]
	s := p1Build([]string{"a"}, []int{n}, 1, false)
	vol := append([]byte(nil), s.fs.files[p1VolPath(1)]...)
	// the parity payload is the tail of the volume; alter its last byte (beyond
	// the first 16 KiB for the long file) and recompute the control hash
	vol[len(vol)-1] ^= rt.Byte("flip")
	h := md5.Sum(vol[0x20:])
	copy(vol[0x10:0x20], h[:])
	s.fs.put(p1VolPath(1), vol)
	s.fs.remove(s.paths[0])
	w0 := len(s.fs.writes)
	res, err := repair(s.fs, p1Index, RepairOptions{DoubleCheck: rt.Bool("doubleCheck")})
	for _, w := range s.fs.writes[w0:] {
		rt.Assert(w.path == s.paths[0] && bytesEqual(w.data, s.orig[0]), "every file PAR1 Repair writes has exactly the protected bytes")
		rt.Reach("written")
	}
	rt.Assert(len(res.RepairedPaths) == len(s.fs.writes)-w0, "RepairedPaths lists exactly the files written")
	if err == nil {
		rt.Assert(s.intact(), "PAR1 Repair returned nil: the file is restored exactly")
	} else {
		rt.Reach("rejected")
	}
}

// The largest PAR1 set: 99 volumes (.p01 ... .p99).  Every volume is found, and
// the last one alone repairs a lost file.
func volPath2(v int) string {
	return "/d/s.p" + string(rune('0'+v/10)) + string(rune('0'+v%10))
}

func VerifHarness_C04_max_volumes() {
	s := p1Build([]string{"a"}, []int{2}, 99, false)
	res, err := verify(s.fs, p1Index, VerifyOptions{})
	rt.Assert(err == nil, "PAR1 Verify returns a result for a set with a valid index")
	rt.Assert(res.FileCounts.UsableParityFileCount == 99 && res.FileCounts.UnusableParityFileCount == 0, "usable parity volumes == present intact volumes")
	// keep one volume only (solver's choice among the first, a middle and the last one)
	keep := []int{1, 50, 98, 99}[rt.Choice("keep", 4)]
	for v := 1; v <= 99; v++ {
		if v != keep {
			s.fs.remove(volPath2(v))
		}
	}
	s.fs.remove(s.paths[0])
	res, err = verify(s.fs, p1Index, VerifyOptions{})
	rt.Assert(err == nil && res.FileCounts.UsableParityFileCount == 1 && res.FileCounts.RepairPossible(), "one lost file, one volume left: repair is possible")
	_, rerr := repair(s.fs, p1Index, RepairOptions{})
	if rerr != errStubSingular {
		rt.Assert(rerr == nil && s.intact(), "the remaining volume restores the file")
	}
}

// The largest PAR1 sets the format allows: data files + volumes == 256
// (157 files with 99 volumes), and one shard fewer as a control.
func VerifHarness_C04_max_shards() {
	nFiles := []int{157, 156}[rt.Choice("files", 2)]
	names := make([]string, nFiles)
	lens := make([]int, nFiles)
	for i := range names {
		names[i] = "f" + string(rune('0'+i/100)) + string(rune('0'+i/10%10)) + string(rune('0'+i%10))
		lens[i] = 1
	}
	s := p1Build(names, lens, 99, false)
	res, err := verify(s.fs, p1Index, VerifyOptions{})
	rt.Assert(err == nil, "PAR1 Verify returns a result for a set with a valid index")
	rt.Assert(res.FileCounts.UsableDataFileCount == nFiles && res.FileCounts.UsableParityFileCount == 99 && res.FileCounts.UnusableParityFileCount == 0, "usable parity volumes == present intact volumes")
	for v := 1; v <= 98; v++ {
		s.fs.remove(volPath2(v))
	}
	s.fs.remove(s.paths[nFiles-1])
	res, err = verify(s.fs, p1Index, VerifyOptions{})
	rt.Assert(err == nil && res.FileCounts.UsableParityFileCount == 1 && res.FileCounts.RepairPossible(), "one lost file, the last volume left: repair is possible")
	_, rerr := repair(s.fs, p1Index, RepairOptions{})
	if rerr != errStubSingular {
		rt.Assert(rerr == nil && s.intact(), "the remaining volume restores the file")
	}
}
