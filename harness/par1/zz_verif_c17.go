package par1

// C17, PAR1 side: the bytes Create writes do not depend on how the same paths
// are spelled (relative, absolute, ./, doubled separators, mixed within one
// call) or on the working directory; the input order is kept fixed (PAR1 entry
// order follows it).

import (
	rt "github.com/akalin/gopar/internal/zzverifrt"
)

func init() { rt.Register("C17_par1_paths", VerifHarness_C17_par1_paths) }

func VerifHarness_C17_par1_paths() {
	useReedSolomonStub()
	ca, cb := rt.Bytes("a", 2), rt.Bytes("b", 3)
	run := func(cwd, par string, files []string) []fsWrite {
		fs := newSymFS()
		fs.cwd = cwd
		fs.put("/d/a", append([]byte(nil), ca...))
		fs.put("/d/b", append([]byte(nil), cb...))
		err := create(fs, par, files, CreateOptions{NumParityFiles: 2})
		rt.Assert(err == nil, "PAR1 Create succeeds for every spelling")
		return fs.writes
	}
	ref := run("/d", "/d/s.par", []string{"/d/a", "/d/b"})
	var got []fsWrite
	switch rt.Choice("spelling", 6) {
	case 0:
		got = run("/d", "s.par", []string{"a", "b"})
	case 1:
		got = run("/d", "./s.par", []string{"a", "./b"})
	case 2:
		got = run("/", "d/s.par", []string{"d/a", "/d/b"})
	case 3:
		got = run("/d", "s.par", []string{"./a", "b"})
	case 4:
		got = run("/d", "s.par", []string{"a", "/d//b"})
	case 5:
		got = run("/d", "/d/s.par", []string{"/d/a", "/d/b"}) // repeated run
	}
	rt.Assert(len(got) == len(ref), "same number of files written")
	for i := range ref {
		if i < len(got) {
			rt.Assert(got[i].path == ref[i].path, "same files written, in the same order")
			rt.Assert(bytesEqual(got[i].data, ref[i].data), "byte-identical PAR1 output for every spelling / working directory")
		}
	}
}
