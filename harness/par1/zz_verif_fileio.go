package par1

// The code below the fileIO seam: the real defaultFileIO.ReadFile / WriteFile
// on modelled regular files (natively: real files).  After WriteFile the path
// holds exactly the bytes given, whatever it held before (missing, shorter,
// equal length, longer), no other file changes, and ReadFile returns the
// stored bytes.  Every scenario harness relies on this contract through symFS.

import (
	rt "github.com/akalin/gopar/internal/zzverifrt"
)

func init() {
	rt.Register("C02_par1_default_io", VerifHarness_C02_par1_default_io)
}

func VerifHarness_C02_par1_default_io() {
	const dir = "/tmp/zzverif/io/"
	p, other := dir+"f.bin", dir+"other.bin"
	rt.SetDir("/tmp/zzverif/io", nil)
	ob := rt.Bytes("other", 2)
	rt.SetFile(other, ob)
	prev := rt.Choice("prev", 6) - 1 // -1: the file does not exist
	if prev >= 0 {
		rt.SetFile(p, rt.Bytes("old", prev))
	} else {
		rt.RemoveFile(p)
		_, err := defaultFileIO{}.ReadFile(p)
		rt.Assert(err != nil, "ReadFile of a missing file fails")
	}
	data := rt.Bytes("new", rt.Choice("n", 4))
	err := defaultFileIO{}.WriteFile(p, data)
	rt.Assert(err == nil, "WriteFile succeeds")
	got, ok := rt.FileContents(p)
	rt.Assert(ok && bytesEqual(got, data), "after WriteFile the file holds exactly the given bytes, whatever it held before")
	rd, err := defaultFileIO{}.ReadFile(p)
	rt.Assert(err == nil && bytesEqual(rd, data), "ReadFile returns the stored bytes")
	o2, ok := rt.FileContents(other)
	rt.Assert(ok && bytesEqual(o2, ob), "no other file changes")
	rt.Assert(len(rt.FileNames(dir)) == 2, "no other file appears")
}
