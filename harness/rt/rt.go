// Package zzverifrt is the harness runtime.  Under gosym every function here is
// an intrinsic (inputs are symbolic variables, Assert is a proof obligation).
// Natively (go test -overlay) the same functions read a replay file named by
// VERIF_REPLAY, so that a solver model can be re-run against the real build.
package zzverifrt

import (
	"encoding/json"
	"fmt"
	"io/fs"
	"os"
	"path/filepath"
	"runtime"
	"time"
)

type replayFile struct {
	Harness string            `json:"harness"`
	Model   map[string]uint64 `json:"model"`
}

var (
	loaded   bool
	model    map[string]uint64
	registry = map[string]func(){}
	// Failures collects failed assertions of the native run.
	Failures []string
	// AssumeFailed is set when an assumption does not hold natively.
	AssumeFailed bool
)

func load() {
	if loaded {
		return
	}
	loaded = true
	model = map[string]uint64{}
	p := os.Getenv("VERIF_REPLAY")
	if p == "" {
		return
	}
	b, err := os.ReadFile(p)
	if err != nil {
		panic(err)
	}
	var r replayFile
	if err := json.Unmarshal(b, &r); err != nil {
		panic(err)
	}
	model = r.Model
}

// SetModel installs input values directly (used by validation tests).
func SetModel(m map[string]uint64) {
	loaded = true
	model = m
	Failures = nil
	AssumeFailed = false
}

func val(name string) uint64 { load(); return model[name] }

func Byte(name string) byte   { return byte(val(name)) }
func U16(name string) uint16  { return uint16(val(name)) }
func U32(name string) uint32  { return uint32(val(name)) }
func U64(name string) uint64  { return val(name) }
func Int(name string) int     { return int(val(name)) }
func MathInt(name string) int { return int(val(name)) }
func Bool(name string) bool   { return val(name) != 0 }
func Choice(name string, n int) int {
	v := int(val(name))
	if v < 0 || v >= n {
		AssumeFailed = true
		panic(assumeFailure{})
	}
	return v
}
func Concrete(x int) int { return x }

func Bytes(name string, n int) []byte {
	out := make([]byte, n)
	for i := range out {
		out[i] = byte(val(fmt.Sprintf("%s_%d", name, i)))
	}
	return out
}

// SetDir declares the content of a directory for code that lists directories
// through the os package (filepath.Glob): a model under gosym; natively the
// directory and (empty) files are really created.
func SetDir(dir string, names []string) {
	if err := os.MkdirAll(dir, 0700); err != nil {
		panic(err)
	}
	old, _ := os.ReadDir(dir)
	for _, e := range old {
		os.Remove(filepath.Join(dir, e.Name()))
	}
	for _, n := range names {
		if err := os.WriteFile(filepath.Join(dir, n), nil, 0600); err != nil {
			panic(err)
		}
	}
}

// SetFile / RemoveFile / FileContents / FileNames: regular files reached through
// the os package (a table of path -> bytes under gosym; real files natively).
func SetFile(path string, data []byte) {
	if err := os.MkdirAll(filepath.Dir(path), 0700); err != nil {
		panic(err)
	}
	os.Remove(path)
	if err := os.WriteFile(path, data, 0600); err != nil {
		panic(err)
	}
}

func RemoveFile(path string) { os.Remove(path) }

func FileContents(path string) ([]byte, bool) {
	b, err := os.ReadFile(path)
	if err != nil {
		return nil, false
	}
	return b, true
}

// FileNames lists the regular files whose path starts with prefix (prefix ends in a separator).
func FileNames(prefix string) []string {
	var out []string
	es, _ := os.ReadDir(filepath.Dir(prefix + "x"))
	for _, e := range es {
		if !e.IsDir() {
			out = append(out, prefix+e.Name())
		}
	}
	return out
}

// DirInfo is the fs.FileInfo gosym returns from os.Stat for a modelled directory.
type DirInfo struct{}

func (DirInfo) Name() string       { return "dir" }
func (DirInfo) Size() int64        { return 0 }
func (DirInfo) Mode() fs.FileMode  { return fs.ModeDir | 0700 }
func (DirInfo) ModTime() time.Time { return time.Time{} }
func (DirInfo) IsDir() bool        { return true }
func (DirInfo) Sys() interface{}   { return nil }

// ExitCode runs f and returns the status it passes to os.Exit (-1 if it
// returns; 0 if f returns normally).  gosym only: natively os.Exit cannot be intercepted, C20
// counterexamples are replayed by running the built binary instead.
func ExitCode(f func()) int {
	AssumeFailed = true
	panic(assumeFailure{})
}

// OneOf reports whether b is one of the bytes of set (a single disjunction
// term under gosym, no branching).
func OneOf(b byte, set string) bool {
	for i := 0; i < len(set); i++ {
		if set[i] == b {
			return true
		}
	}
	return false
}

type assumeFailure struct{}

// Assume states a precondition; natively a failed assumption aborts the replay
// (the model does not describe a run of this harness).
func Assume(c bool) {
	if !c {
		AssumeFailed = true
		panic(assumeFailure{})
	}
}

// Assert is the property.
func Assert(c bool, label string) {
	if !c {
		Failures = append(Failures, label)
	}
}

func Reach(label string) {}
func Option(name string) {}

// SetCwd sets the working directory seen by filepath.Abs: a model variable under
// gosym, a real chdir (directory created if needed) natively.
func SetCwd(dir string) {
	if err := os.MkdirAll(dir, 0700); err != nil {
		panic(err)
	}
	if err := os.Chdir(dir); err != nil {
		panic(err)
	}
}
func IsSymbolic() bool               { return false }
func RaceFree(label string)          {}
func MapOrderAdversarial(tag string) {}
func MapOrderDefault()               {}

// Replace substitutes spec for the named function under gosym (a verified
// summary or an environment stub); natively the real function runs.
func Replace(fn string, spec interface{}) {}

// CutLoop installs a loop invariant cut under gosym; natively a no-op.
func CutLoop(fn string, loop int, inv interface{}) {}

// RunLoopBody executes one iteration of a loop of the named function from an
// arbitrary state of its loop variables (gosym only; the path ends there).
func RunLoopBody(fn string, loop int, inv interface{}) {}

// TableLoop declares (gosym only) that the loop run by the next RunLoopBody
// is a counted loop over a multiplication table: index variable, range
// [lo, hi), and the number of table cells one iteration stores.  The loop must
// start at lo, run its body exactly for indices below hi, advance by one, and
// iteration i must store all cells of entry i and of no other entry.
func TableLoop(varName string, lo, hi, storesPerIter int) {}

// TaskRangesPartition asserts (gosym only) that the workers of the last
// fork/join called the kernels on consecutive non-empty ranges covering [0, total).
func TaskRangesPartition(total int) {}

// KernelCoverage asserts (gosym only) that the assembly-kernel calls made on
// abstract buffers partition [0, total).
func KernelCoverage(total int) {}

// GFMul is the specification of multiplication in GF(2^16) mod 0x1100B
// (carry-less product, then reduction); under gosym it is the SMT-LIB gfmul.
func GFMul(a, b uint16) uint16 {
	var p uint32
	for i := uint(0); i < 16; i++ {
		if b>>i&1 != 0 {
			p ^= uint32(a) << i
		}
	}
	for i := 30; i >= 16; i-- {
		if p>>uint(i)&1 != 0 {
			p ^= 0x1100B << uint(i-16)
		}
	}
	return uint16(p)
}

// AbstractBytes is a byte slice of symbolic length without contents (gosym
// only); natively it is a zero slice of the replayed length.
func AbstractBytes(name string) []byte {
	n := int(val(name + "_len"))
	if n < 0 || n > 1<<26 {
		// not replayable on this machine: treat as outside the replay's reach
		AssumeFailed = true
		panic(assumeFailure{})
	}
	// spare capacity with a recognisable filler, so that writes past the end are observable
	b := make([]byte, n, n+64)
	g := b[n : n+64]
	for i := range g {
		g[i] = 0xA5
	}
	guards = append(guards, g)
	return b
}

var guards [][]byte

// GuardsIntact reports whether the spare capacity behind every AbstractBytes
// buffer still holds its filler (native only; true under gosym).
func GuardsIntact() bool {
	for _, g := range guards {
		for _, x := range g {
			if x != 0xA5 {
				return false
			}
		}
	}
	return true
}
func AbstractBytesLen(name string, n int) []byte {
	b := make([]byte, n, n+64)
	g := b[n : n+64]
	for i := range g {
		g[i] = 0xA5
	}
	guards = append(guards, g)
	return b
}

// Register makes a harness runnable by name from the replay test.
func Register(name string, f func()) { registry[name] = f }

// RunRegistered runs a harness natively and reports
// (assertion failures, assumption failed, panic value).
func RunRegistered(name string) (fails []string, assumeFailed bool, panicked interface{}) {
	f, ok := registry[name]
	if !ok {
		panic("zzverifrt: no harness registered as " + name)
	}
	Failures = nil
	AssumeFailed = false
	guards = nil
	// the processor count is part of the environment gosym quantifies over
	load()
	if v, ok := model["env_gomaxprocs"]; ok && v >= 1 && v <= 256 {
		defer runtime.GOMAXPROCS(runtime.GOMAXPROCS(int(v)))
	}
	func() {
		defer func() {
			if r := recover(); r != nil {
				if _, ok := r.(assumeFailure); ok {
					return
				}
				panicked = r
			}
		}()
		f()
	}()
	return Failures, AssumeFailed, panicked
}
