package gf2

// C08 (GF(2)[x] part): Poly64.Times is the carry-less product mod x^64 and
// Poly64.Div is Euclidean division, for all 64-bit operands.  Loops are cut by
// invariants written as ordinary Go functions; ilog2 is replaced by a
// branch-free specification after that replacement has been justified by its
// own harness.

import rt "github.com/akalin/gopar/internal/zzverifrt"

func init() {
	rt.Register("C08_times_cut", VerifHarness_C08_times_cut)
	rt.Register("C08_times_small", VerifHarness_C08_times_small)
	rt.Register("C08_ilog2", VerifHarness_C08_ilog2)
	rt.Register("C08_div_cut", VerifHarness_C08_div_cut)
	rt.Register("C08_div_small", VerifHarness_C08_div_small)
	rt.Register("C08_plusminus", VerifHarness_C08_plusminus)
}

// specClmul is the specification: XOR of shifted copies, mod x^64.
func specClmul(a, b uint64) uint64 {
	var r uint64
	for i := uint(0); i < 64; i++ {
		if b>>i&1 != 0 {
			r ^= a << i
		}
	}
	return r
}

// specIlog2 is the index of the most significant set bit (n > 0).
func specIlog2(n uint64) uint {
	var r uint
	if n>>32 != 0 {
		r += 32
		n >>= 32
	}
	if n>>16 != 0 {
		r += 16
		n >>= 16
	}
	if n>>8 != 0 {
		r += 8
		n >>= 8
	}
	if n>>4 != 0 {
		r += 4
		n >>= 4
	}
	if n>>2 != 0 {
		r += 2
		n >>= 2
	}
	if n>>1 != 0 {
		r += 1
	}
	return r
}

func invTimes(in_p, in_q, p, q, prod Poly64) bool {
	return uint64(prod)^specClmul(uint64(p), uint64(q)) == specClmul(uint64(in_p), uint64(in_q))
}

func VerifHarness_C08_times_cut() {
	p, q := Poly64(rt.U64("p")), Poly64(rt.U64("q"))
	rt.CutLoop("(github.com/akalin/gopar/gf2.Poly64).Times", 0, invTimes)
	got := p.Times(q)
	rt.Assert(uint64(got) == specClmul(uint64(p), uint64(q)), "Times == carry-less product mod x^64")
}

func VerifHarness_C08_times_small() {
	p, q := rt.U64("p"), rt.U64("q")
	rt.Assume(p < 1<<10)
	rt.Assume(q < 1<<10)
	got := Poly64(p).Times(Poly64(q))
	rt.Assert(uint64(got) == specClmul(p, q), "Times == carry-less product (unrolled, operands < 2^10)")
}

func VerifHarness_C08_ilog2() {
	n := rt.U64("n")
	rt.Assume(n != 0)
	got := ilog2(n)
	rt.Assert(got == specIlog2(n), "ilog2 == msb index")
	rt.Assert(n>>got == 1, "n>>ilog2(n) == 1")
}

func invDiv(in_p, in_p2, q, r Poly64) bool {
	return specClmul(uint64(q), uint64(in_p2))^uint64(r) == uint64(in_p)
}

func VerifHarness_C08_div_cut() {
	p, p2 := Poly64(rt.U64("p")), Poly64(rt.U64("p2"))
	rt.Assume(p2 != 0)
	rt.Option("fork-shifts")
	rt.Replace("github.com/akalin/gopar/gf2.ilog2", specIlog2)
	rt.CutLoop("(github.com/akalin/gopar/gf2.Poly64).Div", 0, invDiv)
	q, r := p.Div(p2)
	rt.Assert(specClmul(uint64(q), uint64(p2))^uint64(r) == uint64(p), "q*p2 + r == p")
	if r != 0 {
		rt.Assert(specIlog2(uint64(r)) < specIlog2(uint64(p2)), "deg r < deg p2")
	}
}

func VerifHarness_C08_div_small() {
	p, p2 := rt.U64("p"), rt.U64("p2")
	rt.Assume(p < 1<<8)
	rt.Assume(p2 < 1<<8)
	rt.Assume(p2 != 0)
	q, r := Poly64(p).Div(Poly64(p2))
	rt.Assert(specClmul(uint64(q), p2)^uint64(r) == p, "q*p2 + r == p (unrolled, operands < 2^8)")
	if r != 0 {
		rt.Assert(specIlog2(uint64(r)) < specIlog2(p2), "deg r < deg p2 (unrolled)")
	}
}

func VerifHarness_C08_plusminus() {
	p, q := Poly64(rt.U64("p")), Poly64(rt.U64("q"))
	rt.Assert(p.Plus(q) == p^q, "Plus is xor")
	rt.Assert(p.Minus(q) == p^q, "Minus is xor")
}
