package main

// C20: exit status of the par command.  The real main runs on an argument
// vector chosen by the solver from a vocabulary; the library entry points are
// replaced by stubs whose outcome (error class, counts) is symbolic.

import (
	"errors"
	"flag"
	"os"
	"strings"

	rt "github.com/akalin/gopar/internal/zzverifrt"
	"github.com/akalin/gopar/par1"
	"github.com/akalin/gopar/par2"
	"github.com/akalin/gopar/rsec16"
	"github.com/klauspost/reedsolomon"
)

func init() { rt.Register("C20_main", VerifHarness_C20_main) }

const (
	outOK = iota
	outNotPossible
	outOtherError
)

var (
	c20Outcome   = -1
	c20Lib       = 0  // 1 = par1, 2 = par2: the library the CLI called
	c20Path      = "" // the index path it was given
	c20Unusable  int
	c20UsablePar int
	errOther     = errors.New("some other failure")
)

// the library outcome is chosen only on paths that reach a library call
func c20Choose() {
	if c20Outcome < 0 {
		c20Outcome = rt.Choice("outcome", 3)
		c20Unusable = rt.Choice("unusable", 3)
		c20UsablePar = rt.Choice("usableParity", 3)
	}
}

func c20Err(par1Kind bool) error {
	c20Choose()
	switch c20Outcome {
	case outNotPossible:
		if par1Kind {
			return reedsolomon.ErrTooFewShards
		}
		return rsec16.NotEnoughParityShardsError{}
	case outOtherError:
		return errOther
	}
	return nil
}

func stubP1Create(p string, _ []string, _ par1.CreateOptions) error {
	c20Lib, c20Path = 1, p
	return c20Err(true)
}
func stubP2Create(p string, _ []string, _ par2.CreateOptions) error {
	c20Lib, c20Path = 2, p
	return c20Err(false)
}
func stubP1Verify(p string, _ par1.VerifyOptions) (par1.VerifyResult, error) {
	c20Lib, c20Path = 1, p
	c20Choose()
	if c20Outcome == outOtherError {
		return par1.VerifyResult{}, errOther
	}
	return par1.VerifyResult{FileCounts: par1.FileCounts{UnusableDataFileCount: c20Unusable, UsableParityFileCount: c20UsablePar}}, nil
}
func stubP2Verify(p string, _ par2.VerifyOptions) (par2.VerifyResult, error) {
	c20Lib, c20Path = 2, p
	c20Choose()
	if c20Outcome == outOtherError {
		return par2.VerifyResult{}, errOther
	}
	return par2.VerifyResult{ShardCounts: par2.ShardCounts{UnusableDataShardCount: c20Unusable, UsableParityShardCount: c20UsablePar}}, nil
}
func stubP1Repair(p string, _ par1.RepairOptions) (par1.RepairResult, error) {
	c20Lib, c20Path = 1, p
	return par1.RepairResult{}, c20Err(true)
}
func stubP2Repair(p string, _ par2.RepairOptions) (par2.RepairResult, error) {
	c20Lib, c20Path = 2, p
	return par2.RepairResult{}, c20Err(false)
}
func stubPrintDefaults(*flag.FlagSet) {}

func VerifHarness_C20_main() {
	rt.Replace("github.com/akalin/gopar/par1.Create", stubP1Create)
	rt.Replace("github.com/akalin/gopar/par2.Create", stubP2Create)
	rt.Replace("github.com/akalin/gopar/par1.Verify", stubP1Verify)
	rt.Replace("github.com/akalin/gopar/par2.Verify", stubP2Verify)
	rt.Replace("github.com/akalin/gopar/par1.Repair", stubP1Repair)
	rt.Replace("github.com/akalin/gopar/par2.Repair", stubP2Repair)
	rt.Replace("(*flag.FlagSet).PrintDefaults", stubPrintDefaults)

	cmds := []string{"c", "create", "v", "verify", "r", "repair", "C", "Verify", "REPAIR", "bogus", ""}
	cmd := cmds[rt.Choice("cmd", len(cmds))]
	exts := []string{"s.par", "s.par2", "dir/s.par2", "s.txt", "s", "", "a.b.par2", "a.b.par", "d.x/s.par2"}
	file := exts[rt.Choice("file", len(exts))]
	flagKind := rt.Choice("flags", 5)
	c20Outcome, c20Lib, c20Path = -1, 0, ""

	args := []string{"par"}
	if flagKind == 1 {
		args = append(args, "-g", "2")
	}
	if flagKind == 2 {
		args = append(args, "-nosuchflag")
	}
	if cmd != "" {
		args = append(args, cmd)
	}
	if flagKind == 3 {
		args = append(args, "-nosuchflag")
	}
	if flagKind == 4 {
		// a flag the sub-command knows, after the command word
		switch map[string]string{"c": "create", "create": "create", "C": "create", "v": "verify", "verify": "verify", "Verify": "verify",
			"r": "repair", "repair": "repair", "REPAIR": "repair"}[cmd] {
		case "create":
			args = append(args, "-c", "2")
		case "verify":
			args = append(args, "-a")
		case "repair":
			args = append(args, "-doublecheck")
		}
	}
	nData := 0
	if file != "" {
		args = append(args, file)
		nData = rt.Choice("dataFiles", 2)
		if nData == 1 {
			args = append(args, "data1")
		}
	}
	os.Args = args
	code := rt.ExitCode(main)

	// the expected status, straight from the property
	lower := map[string]string{"c": "create", "create": "create", "C": "create", "v": "verify", "verify": "verify", "Verify": "verify",
		"r": "repair", "repair": "repair", "REPAIR": "repair"}[cmd]
	isPar := strings.HasSuffix(file, ".par") || strings.HasSuffix(file, ".par2")
	usage := flagKind == 2 || flagKind == 3 || cmd == "" || lower == "" || file == "" || (lower == "create" && nData == 0)
	if !usage && isPar {
		rt.Assert(c20Outcome >= 0, "a well-formed command line reaches the requested library operation")
		want := 1
		if strings.HasSuffix(file, ".par2") {
			want = 2
		}
		rt.Assert(c20Lib == want, "the format is chosen by the index file's extension")
		rt.Assert(c20Path == file, "the library is handed the index path as given")
	}
	switch {
	case usage:
		rt.Assert(code == 3, "usage errors exit 3")
		rt.Reach("usage")
	case !isPar:
		rt.Assert(code != 0 && code != 1 && code != 2 && code != 3, "unknown extension: a failure status other than 0-3")
	case lower == "create":
		if c20Outcome == outOK {
			rt.Assert(code == 0, "create succeeded: exit 0")
		} else {
			rt.Assert(code != 0 && code != 3, "create failed: non-zero, not the usage status")
		}
	case lower == "verify":
		switch {
		case c20Outcome == outOtherError:
			rt.Assert(code != 0 && code != 1 && code != 2 && code != 3, "verify failed: a failure status other than 0-3")
		case c20Unusable == 0:
			rt.Assert(code == 0, "verify: nothing to repair: exit 0")
		case c20Unusable <= c20UsablePar:
			rt.Assert(code == 1, "verify: repair needed and possible: exit 1")
		default:
			rt.Assert(code == 2, "verify: repair needed but impossible: exit 2")
		}
		rt.Reach("verify")
	case lower == "repair":
		switch c20Outcome {
		case outOK:
			rt.Assert(code == 0, "repair succeeded: exit 0")
		case outNotPossible:
			rt.Assert(code == 2, "repair needed but impossible: exit 2 (PAR1 and PAR2 alike)")
		default:
			rt.Assert(code != 0 && code != 1 && code != 2 && code != 3, "repair failed otherwise: a failure status other than 0-3")
		}
		rt.Reach("repair")
	}
}
