package par2

// Hidden state between operations: several sets, or several operations on one
// set, handled in one process.  Every later operation is judged by the same
// oracle as a first one would be.

import (
	"crypto/md5"

	rt "github.com/akalin/gopar/internal/zzverifrt"
)

func init() {
	rt.Register("C16_two_slice_sizes", VerifHarness_C16_two_slice_sizes)
	rt.Register("C05_create_thrice", VerifHarness_C05_create_thrice)
	rt.Register("C14_big_then_damage", VerifHarness_C14_big_then_damage)
	rt.Register("C17_create_changed", VerifHarness_C17_create_changed)
}

// shiftedSet builds a one-file set with the given slice size, inserts one byte
// at the front of the file and returns Verify's usable count and the expected one.
func shiftedSet(dir string, slice, slices int, seed byte) (int, int, error) {
	fs := newSymFS()
	data := make([]byte, slice*slices)
	for i := range data {
		data[i] = byte(i)*7 + seed + byte(i/slice)
	}
	file, index := dir+"/f0", dir+"/s.par2"
	fs.put(file, append([]byte(nil), data...))
	if err := create(fs, index, []string{file}, CreateOptions{SliceByteCount: slice, NumParityShards: 1, NumGoroutines: 1}); err != nil {
		return 0, 0, err
	}
	fs.put(file, append([]byte{0xEE}, data...))
	res, err := verify(fs, index, VerifyOptions{NumGoroutines: 1})
	return res.ShardCounts.UsableDataShardCount, slices, err
}

// Two sets with different slice sizes verified one after the other.
func VerifHarness_C16_two_slice_sizes() {
	useFileIDLessSpec()
	sizes := [][2]int{{4, 8}, {8, 4}, {4, 64}, {12, 8}}[rt.Choice("sizes", 4)]
	for k, sz := range sizes {
		got, want, err := shiftedSet(scnDir, sz, 3, byte(17*k+1))
		rt.Assert(err == nil, "Create and Verify succeed")
		rt.Assert(got == want, "bytes inserted before the content: every slice is still found (shifted), whatever set was handled before")
	}
}

// Three Create runs of different shapes (slices x blocks) in one process; the
// third is checked by the independent reader and Reed-Solomon oracle.
func VerifHarness_C05_create_thrice() {
	shapes := [][3][2]int{
		{{20, 4}, {40, 2}, {32, 4}}, // 5x4, 10x2, 8x4 slices x blocks
		{{8, 5}, {24, 1}, {16, 5}},
	}[rt.Choice("shapes", 2)]
	var s *scenario
	for _, sh := range shapes {
		s = buildArchiveMode([]int{sh[0]}, sh[1], 1, contentDistinct)
	}
	checkCreated(s, []string{"f0"})
}

func bigData() []byte {
	data := make([]byte, 16388)
	for i := range data {
		data[i] = byte(i*7 + i/251 + 1)
	}
	return data
}

func bigScenario(data []byte) *scenario {
	useFileIDLessSpec()
	s := &scenario{fs: newSymFS(), parity: 1}
	s.orig = [][]byte{data}
	s.paths = []string{fileName(0)}
	s.fs.put(fileName(0), append([]byte(nil), data...))
	err := create(s.fs, scnIndex, s.paths, CreateOptions{SliceByteCount: 8192, NumParityShards: 1, NumGoroutines: 1})
	rt.Assert(err == nil, "Create succeeds on the scenario")
	return s
}

// Verify an intact large file, then damage it in place beyond the first
// 16 KiB and run Verify and Repair again in the same process.
func VerifHarness_C14_big_then_damage() {
	data := bigData()
	s := bigScenario(data)
	res, err := verify(s.fs, scnIndex, VerifyOptions{NumGoroutines: 1})
	rt.Assert(err == nil && !res.ShardCounts.RepairNeeded(), "the fresh set verifies clean")
	d := append([]byte(nil), data...)
	d[[]int{100, 16384, 16387}[rt.Choice("at", 3)]] ^= 0x21
	s.fs.put(fileName(0), d)
	res, err = verify(s.fs, scnIndex, VerifyOptions{NumGoroutines: 1})
	rt.Assert(err == nil && res.ShardCounts.RepairNeeded(), "no repair needed only if every protected file is present and byte-identical")
	_, rerr := checkRepair(s, rt.Bool("doubleCheck"), 1)
	rt.Assert(rerr == nil, "damage within recovery capacity: Repair succeeds")
}

// Create, change the file beyond its first 16 KiB, Create again in the same
// process: the second set describes the new content.
func VerifHarness_C17_create_changed() {
	data := bigData()
	bigScenario(data)
	d2 := append([]byte(nil), data...)
	d2[16386] ^= rt.Byte("flip")
	rt.Assume(d2[16386] != data[16386])
	s2 := bigScenario(d2)
	pk := refParse(s2.fs.files[scnIndex], "index")
	found := false
	for _, p := range pk {
		if p.typ == "PAR 2.0\x00FileDesc" {
			h := md5.Sum(d2)
			rt.Assert(bytesEqual(p.body[16:32], h[:]), "file description: MD5 of the whole file as it is now")
			found = true
		}
	}
	rt.Assert(found, "file description packet present")
	res, err := verify(s2.fs, scnIndex, VerifyOptions{NumGoroutines: 1})
	rt.Assert(err == nil && !res.ShardCounts.RepairNeeded(), "the fresh set verifies clean")
}
