package par2

// Shared harness machinery for the par2 package: a symbolic file system that
// implements the package's fileIO interface, a branch-free specification of
// fileIDLess, and helpers for building archives.

import (
	"io/fs"
	"os"
	"sort"
	"strings"

	rt "github.com/akalin/gopar/internal/zzverifrt"
)

type fsWrite struct {
	path string
	data []byte
}

// symFS is the environment model below the fileIO interface: a fixed set of
// paths; ReadFile of a missing path fails with a not-exist error; WriteFile
// replaces the content and is logged.
type symFS struct {
	files     map[string][]byte
	order     []string
	writes    []fsWrite
	reads     []string
	failRead  int // fail the n-th ReadFile (1-based) with an I/O error; 0 = never
	failFind  bool
	faultErr  error // the error an injected read fault returns (nil: a plain I/O error)
	failFindN int   // fail the n-th directory listing (1-based); 0 = none
	nFind     int
	failWrite int // fail the n-th WriteFile; 0 = never
	tornLen   int // bytes left behind by a failed write (-1: file untouched)
	nRead     int
	nWrite    int
}

func newSymFS() *symFS { return &symFS{files: map[string][]byte{}, tornLen: -1} }

func (f *symFS) put(path string, data []byte) {
	if _, ok := f.files[path]; !ok {
		f.order = append(f.order, path)
	}
	f.files[path] = data
}

func (f *symFS) remove(path string) {
	if _, ok := f.files[path]; ok {
		delete(f.files, path)
		for i, p := range f.order {
			if p == path {
				f.order = append(f.order[:i:i], f.order[i+1:]...)
				break
			}
		}
	}
}

type ioFault struct{ op string }

func (e *ioFault) Error() string { return "injected I/O error during " + e.op }

func (f *symFS) ReadFile(path string) ([]byte, error) {
	f.nRead++
	f.reads = append(f.reads, path)
	if f.failRead == f.nRead {
		if f.faultErr != nil {
			return nil, f.faultErr
		}
		return nil, &ioFault{"read"}
	}
	data, ok := f.files[path]
	if !ok {
		return nil, &os.PathError{Op: "open", Path: path, Err: fs.ErrNotExist}
	}
	return append([]byte(nil), data...), nil
}

func (f *symFS) FindWithPrefixAndSuffix(prefix, suffix string) ([]string, error) {
	f.nFind++
	if f.failFind || f.failFindN == f.nFind {
		return nil, &ioFault{"glob"}
	}
	var out []string
	for _, p := range f.order {
		if strings.HasPrefix(p, prefix) && strings.HasSuffix(p, suffix) && len(p) >= len(prefix)+len(suffix) {
			out = append(out, p)
		}
	}
	sort.Strings(out)
	return out, nil
}

func (f *symFS) WriteFile(path string, data []byte) error {
	f.nWrite++
	if f.failWrite == f.nWrite {
		if f.tornLen >= 0 {
			n := f.tornLen
			if n > len(data) {
				n = len(data)
			}
			f.put(path, append([]byte(nil), data[:n]...))
		}
		return &ioFault{"write"}
	}
	f.writes = append(f.writes, fsWrite{path, append([]byte(nil), data...)})
	f.put(path, append([]byte(nil), data...))
	return nil
}

func bytesEqual(a, b []byte) bool {
	if len(a) != len(b) {
		return false
	}
	eq := true
	for i := range a {
		if a[i] != b[i] {
			eq = false
		}
	}
	return eq
}

func le64(b []byte) uint64 {
	return uint64(b[0]) | uint64(b[1])<<8 | uint64(b[2])<<16 | uint64(b[3])<<24 |
		uint64(b[4])<<32 | uint64(b[5])<<40 | uint64(b[6])<<48 | uint64(b[7])<<56
}

// specFileIDLess: file ids compare as little-endian 128-bit integers.
func specFileIDLess(a, b fileID) bool {
	ahi, alo := le64(a[8:]), le64(a[:8])
	bhi, blo := le64(b[8:]), le64(b[:8])
	return ahi < bhi || (ahi == bhi && alo < blo)
}

func useFileIDLessSpec() {
	rt.Replace("github.com/akalin/gopar/par2.fileIDLess", specFileIDLess)
}
