package par2

// C05: every file Create writes is a well-formed PAR2 packet stream as judged
// by an independent reader written from the specification, and recovery block
// e is the specified Reed-Solomon combination of the input slices.

import (
	"crypto/md5"
	"hash/crc32"
	"strings"

	rt "github.com/akalin/gopar/internal/zzverifrt"
)

func init() {
	rt.Register("C05_create_one", VerifHarness_C05_create_one)
	rt.Register("C05_create_two", VerifHarness_C05_create_two)
	rt.Register("C05_create_three", VerifHarness_C05_create_three)
	rt.Register("C05_create_names", VerifHarness_C05_create_names)
	rt.Register("C05_index_names", VerifHarness_C05_index_names)
	rt.Register("C05_big_packets", VerifHarness_C05_big_packets)
	rt.Register("C05_sixteenk", VerifHarness_C05_sixteenk)
	rt.Register("C05_volume_layout", VerifHarness_C05_volume_layout)
}

type refPacket struct {
	setID [16]byte
	typ   string
	body  []byte
}

var refMagic = []byte{'P', 'A', 'R', '2', 0, 'P', 'K', 'T'}

func refType(b []byte) string {
	n := len(b)
	for n > 0 && b[n-1] == 0 {
		n--
	}
	return string(b[:n])
}

// refParse splits a file into packets, checking framing and packet hashes.
func refParse(data []byte, what string) []refPacket {
	var out []refPacket
	off := 0
	for off < len(data) {
		rt.Assert(len(data)-off >= 64, what+": room for a packet header")
		if len(data)-off < 64 {
			return out
		}
		rt.Assert(bytesEqual(data[off:off+8], refMagic), what+": packet magic")
		n := int(le64(data[off+8 : off+16]))
		rt.Assert(n >= 64 && n%4 == 0 && off+n <= len(data), what+": packet length >= 64, multiple of 4, inside the file")
		if n < 64 || off+n > len(data) {
			return out
		}
		h := md5.Sum(data[off+32 : off+n])
		rt.Assert(bytesEqual(h[:], data[off+16:off+32]), what+": packet MD5 covers set id, type and body")
		var p refPacket
		copy(p.setID[:], data[off+32:off+48])
		p.typ = refType(data[off+48 : off+64])
		p.body = data[off+64 : off+n]
		out = append(out, p)
		off += n
	}
	return out
}

func refLess(a, b []byte) bool {
	ahi, alo := le64(a[8:16]), le64(a[0:8])
	bhi, blo := le64(b[8:16]), le64(b[0:8])
	return ahi < bhi || (ahi == bhi && alo < blo)
}

func refPow2(n int) uint16 {
	r, b := uint16(1), uint16(2)
	for n > 0 {
		if n&1 != 0 {
			r = rt.GFMul(r, b)
		}
		b = rt.GFMul(b, b)
		n >>= 1
	}
	return r
}

// refConstant is the k-th input-slice constant of the PAR2 specification.
func refConstant(k int) uint16 {
	n := 0
	for {
		if n%3 != 0 && n%5 != 0 && n%17 != 0 && n%257 != 0 {
			if k == 0 {
				return refPow2(n)
			}
			k--
		}
		n++
	}
}

func refPowC(c uint16, e int) uint16 {
	r := uint16(1)
	for i := 0; i < e; i++ {
		r = rt.GFMul(r, c)
	}
	return r
}

func padTo(b []byte, n int) []byte {
	out := make([]byte, n)
	copy(out, b)
	return out
}

func nullPad4(s string) []byte {
	b := []byte(s)
	for len(b)%4 != 0 {
		b = append(b, 0)
	}
	return b
}

// checkCreated validates everything Create wrote for scenario s.
func checkCreated(s *scenario, relNames []string) {
	base := scnDir + "/s"
	rt.Assert(len(s.fs.writes) >= 2, "index and at least one recovery file written")
	rt.Assert(s.fs.writes[0].path == base+".par2", "first file written is the index")
	// expected per-file metadata straight from the inputs
	type want struct {
		id     [16]byte
		hash   [16]byte
		hash16 [16]byte
		slices [][]byte
	}
	wants := make([]want, len(s.orig))
	for i, data := range s.orig {
		var w want
		w.hash = md5.Sum(data)
		w.hash16 = md5.Sum(data) // all scenario files are shorter than 16 KiB (C05_sixteenk covers the boundary)
		var idIn []byte
		idIn = append(idIn, w.hash16[:]...)
		var lb [8]byte
		for k := 0; k < 8; k++ {
			lb[k] = byte(uint64(len(data)) >> (8 * uint(k)))
		}
		idIn = append(idIn, lb[:]...)
		idIn = append(idIn, []byte(relNames[i])...)
		w.id = md5.Sum(idIn)
		for o := 0; o < len(data); o += scnSlice {
			end := o + scnSlice
			if end > len(data) {
				end = len(data)
			}
			w.slices = append(w.slices, padTo(data[o:end], scnSlice))
		}
		wants[i] = w
	}
	var setID [16]byte
	var order []int // file indices in main-packet order
	seenBlocks := map[int]int{}
	var blocks [][]byte
	for fi, wr := range s.fs.writes {
		pk := refParse(wr.data, "written file")
		creator, mains, descs, ifscs, recvs := 0, 0, 0, 0, 0
		for _, p := range pk {
			if fi == 0 && mains == 0 && creator == 0 && descs == 0 {
				setID = p.setID
			}
			rt.Assert(p.setID == setID, "all packets carry the same recovery set id")
			switch p.typ {
			case "PAR 2.0\x00Creator":
				creator++
			case "PAR 2.0\x00Main":
				mains++
				h := md5.Sum(p.body)
				rt.Assert(h == setID, "recovery set id == MD5 of the main packet body")
				rt.Assert(le64(p.body[0:8]) == scnSlice, "main packet: slice size")
				cnt := int(uint32(le64(padTo(p.body[8:12], 8))))
				rt.Assert(cnt == len(s.orig), "main packet: recovery set count")
				rt.Assert(len(p.body) == 12+16*len(s.orig), "main packet: one id per protected file, no non-recovery files")
				var ord []int
				for k := 0; k < len(s.orig) && 12+16*k+16 <= len(p.body); k++ {
					id := p.body[12+16*k : 28+16*k]
					if k > 0 {
						rt.Assert(refLess(p.body[12+16*(k-1):28+16*(k-1)], id), "main packet: file ids ascending as little-endian 128-bit integers")
					}
					found := -1
					for i := range wants {
						if bytesEqual(id, wants[i].id[:]) {
							found = i
						}
					}
					rt.Assert(found >= 0, "main packet: every id is the id of an input file (MD5 of 16k-hash, length, name)")
					ord = append(ord, found)
				}
				if fi == 0 {
					order = ord
				}
			case "PAR 2.0\x00FileDesc":
				descs++
				found := -1
				for i := range wants {
					if bytesEqual(p.body[0:16], wants[i].id[:]) {
						found = i
					}
				}
				rt.Assert(found >= 0, "file description: known file id")
				if found >= 0 {
					w := wants[found]
					rt.Assert(bytesEqual(p.body[16:32], w.hash[:]), "file description: MD5 of the whole file")
					rt.Assert(bytesEqual(p.body[32:48], w.hash16[:]), "file description: MD5 of the first 16 KiB")
					rt.Assert(le64(p.body[48:56]) == uint64(len(s.orig[found])), "file description: length")
					rt.Assert(bytesEqual(p.body[56:], nullPad4(relNames[found])), "file description: name relative to the index directory, null padded to 4")
				}
			case "PAR 2.0\x00IFSC":
				ifscs++
				found := -1
				for i := range wants {
					if bytesEqual(p.body[0:16], wants[i].id[:]) {
						found = i
					}
				}
				rt.Assert(found >= 0, "slice checksums: known file id")
				if found >= 0 {
					w := wants[found]
					rt.Assert(len(p.body) == 16+20*len(w.slices), "slice checksums: one pair per slice")
					for k, sl := range w.slices {
						if 16+20*k+20 > len(p.body) {
							break
						}
						m := md5.Sum(sl)
						rt.Assert(bytesEqual(p.body[16+20*k:32+20*k], m[:]), "slice checksums: MD5 of the zero-padded slice")
						c := crc32.ChecksumIEEE(sl)
						got := uint32(le64(padTo(p.body[32+20*k:36+20*k], 8)))
						rt.Assert(got == c, "slice checksums: CRC32 of the zero-padded slice")
					}
				}
			case "PAR 2.0\x00RecvSlic":
				recvs++
				e := int(uint32(le64(padTo(p.body[0:4], 8))))
				seenBlocks[e]++
				rt.Assert(len(p.body) == 4+scnSlice, "recovery packet: one slice of data")
				for len(blocks) <= e {
					blocks = append(blocks, nil)
				}
				blocks[e] = p.body[4:]
			default:
				rt.Assert(false, "unexpected packet type "+p.typ)
			}
		}
		rt.Assert(creator == 1, "a creator packet in every file")
		rt.Assert(mains == 1, "a main packet in every file")
		rt.Assert(descs == len(s.orig), "a description packet per protected file in every file")
		rt.Assert(ifscs == len(s.orig), "a slice-checksum packet per protected file in every file")
		if fi == 0 {
			rt.Assert(recvs == 0, "no recovery packet in the index file")
		} else {
			rt.Assert(recvs >= 1, "recovery packets in every volume file")
		}
	}
	rt.Assert(len(seenBlocks) == s.parity, "recovery blocks 0..n-1 are all present")
	for e := 0; e < s.parity; e++ {
		rt.Assert(seenBlocks[e] == 1, "every recovery block exactly once")
	}
	// Reed-Solomon data: block e = sum_i slice_i * c_i^e on little-endian words
	var all [][]byte
	for _, fi := range order {
		all = append(all, wants[fi].slices...)
	}
	for e := 0; e < s.parity && e < len(blocks); e++ {
		if blocks[e] == nil {
			continue
		}
		for w := 0; w < scnSlice/2; w++ {
			var sum uint16
			for i, sl := range all {
				x := uint16(sl[2*w]) | uint16(sl[2*w+1])<<8
				sum ^= rt.GFMul(refPowC(refConstant(i), e), x)
			}
			got := uint16(blocks[e][2*w]) | uint16(blocks[e][2*w+1])<<8
			rt.Assert(got == sum, "recovery block e == sum of slice_i * c_i^e in GF(2^16) mod 0x1100B")
		}
	}
	// inputs untouched, nothing else written
	for i, p := range s.paths {
		rt.Assert(bytesEqual(s.fs.files[p], s.orig[i]), "Create leaves its input files unchanged")
	}
}

func VerifHarness_C05_create_one() {
	n := []int{1, 3, 4, 5, 9}[rt.Choice("len", 5)]
	parity := 1 + rt.Choice("parity", 3)
	s := buildArchive([]int{n}, parity, 1+rt.Choice("g", 2))
	checkCreated(s, []string{"f0"})
}

func VerifHarness_C05_create_two() {
	lens := [][]int{{3, 4}, {4, 5}, {8, 1}}[rt.Choice("lens", 3)]
	parity := 1 + rt.Choice("parity", 2)
	s := buildArchive(lens, parity, 1)
	checkCreated(s, []string{"f0", "f1"})
}

func VerifHarness_C05_create_three() {
	parity := []int{1, 4, 5}[rt.Choice("parity", 3)]
	s := buildArchive([]int{5, 4, 3}, parity, 1+rt.Choice("g", 2))
	checkCreated(s, []string{"f0", "f1", "f2"})
}

// Names of different lengths (not multiples of 4, a sub-directory): every
// packet body is padded with zeros of its own, whatever was written before it.
// longName is a relative path of exactly n bytes made of 60-byte directory names.
func longName(n int) string {
	b := make([]byte, n)
	for i := range b {
		if i%61 == 60 && i < n-1 {
			b[i] = '/'
		} else {
			b[i] = byte('a' + i%23)
		}
	}
	return string(b)
}

func VerifHarness_C05_create_names() {
	names := [][]string{
		{"longer_name.bin", "a.txt"},
		{"ab", "abcdefg", "x"},
		{"sub/dir/file1", "q", "zz.tar.gz"},
		{longName(257), "q"},
		{longName(312), longName(256)},
	}[rt.Choice("names", 5)]
	useFileIDLessSpec()
	s := &scenario{fs: newSymFS(), parity: 1}
	for i, n := range names {
		data := rt.Bytes("f"+string(rune('0'+i)), 1+i)
		s.orig = append(s.orig, data)
		s.paths = append(s.paths, scnDir+"/"+n)
		s.fs.put(scnDir+"/"+n, append([]byte(nil), data...))
	}
	err := create(s.fs, scnIndex, s.paths, CreateOptions{SliceByteCount: scnSlice, NumParityShards: 1, NumGoroutines: 1})
	rt.Assert(err == nil, "Create succeeds on the scenario")
	checkCreated(s, names)
}

// The names of the files Create writes: the index exactly where requested, the
// volumes as <base>.volNN+MM.par2 beside it, for base names that end in the
// letters of the extension, in a dot, or contain dots; Verify then finds every block.
func VerifHarness_C05_index_names() {
	base := []string{"s", "data", "x2", "a.", "par", "set.v1", "arp2.par2"}[rt.Choice("base", 7)]
	index := scnDir + "/" + base + ".par2"
	useFileIDLessSpec()
	fs := newSymFS()
	data := rt.Bytes("f0", 3)
	fs.put(fileName(0), append([]byte(nil), data...))
	bystander := scnDir + "/" + base[:len(base)-1] + ".par2" // what a sloppy trim of the name would hit
	fs.put(bystander, []byte("keep"))
	err := create(fs, index, []string{fileName(0)}, CreateOptions{SliceByteCount: scnSlice, NumParityShards: 3, NumGoroutines: 1})
	rt.Assert(err == nil, "Create succeeds on the scenario")
	rt.Assert(len(fs.writes) >= 2 && fs.writes[0].path == index, "the index file is written at the requested path")
	for _, w := range fs.writes[1:] {
		rt.Assert(strings.HasPrefix(w.path, scnDir+"/"+base+".vol") && strings.HasSuffix(w.path, ".par2"), "volume files are named <base>.volNN+MM.par2 beside the index")
	}
	rt.Assert(bytesEqual(fs.files[fileName(0)], data) && bytesEqual(fs.files[bystander], []byte("keep")), "Create modifies neither its input nor a neighbouring file")
	res, verr := verify(fs, index, VerifyOptions{NumGoroutines: 1})
	rt.Assert(verr == nil && res.ShardCounts.UsableParityShardCount == 3 && !res.ShardCounts.RepairNeeded(), "Verify of the fresh set finds every block and nothing to repair")
}

// Packets with bodies around and beyond 1 KiB (a slice of 988 / 992 / 1000 / 2000
// bytes, a checksum list of 48 / 49 / 50 slices, a main packet of 61 / 62 / 63
// files): every packet of every written file carries the MD5 of its own set
// id, type and body, as an independent parser computes it.
func VerifHarness_C05_big_packets() {
	useFileIDLessSpec()
	fs := newSymFS()
	var paths []string
	slice := scnSlice
	switch rt.Choice("shape", 3) {
	case 0:
		slice = []int{988, 992, 1000, 2000}[rt.Choice("slice", 4)]
		d := make([]byte, 2*slice)
		for i := range d {
			d[i] = byte(i*11 + 5)
		}
		copy(d, rt.Bytes("head", 2))
		fs.put(fileName(0), d)
		paths = []string{fileName(0)}
	case 1:
		n := []int{48, 49, 50}[rt.Choice("slices", 3)]
		d := make([]byte, n*scnSlice)
		for i := range d {
			d[i] = byte(i*3 + i/7 + 1)
		}
		fs.put(fileName(0), d)
		paths = []string{fileName(0)}
	case 2:
		n := []int{61, 62, 63}[rt.Choice("files", 3)]
		for i := 0; i < n; i++ {
			p := scnDir + "/g" + string(rune('0'+i/10)) + string(rune('0'+i%10))
			fs.put(p, []byte{byte(i + 1)})
			paths = append(paths, p)
		}
	}
	err := create(fs, scnIndex, paths, CreateOptions{SliceByteCount: slice, NumParityShards: 1, NumGoroutines: 1})
	rt.Assert(err == nil, "Create succeeds on the scenario")
	for _, w := range fs.writes {
		pk := refParse(w.data, w.path)
		rt.Assert(len(pk) >= 4, "creator, main, description and checksum packets present")
	}
}

// The first-16-KiB hash at the boundary: exactly the prefix of length
// min(len, 16384) is hashed (concrete lengths around 16384, symbolic content
// near the boundary).
func VerifHarness_C05_sixteenk() {
	n := []int{16383, 16384, 16385}[rt.Choice("len", 3)]
	data := make([]byte, n)
	copy(data[n-3:], rt.Bytes("tail", 3))
	copy(data[16380:], rt.Bytes("edge", 3))
	got := sixteenKHash(data)
	m := n
	if m > 16384 {
		m = 16384
	}
	want := md5.Sum(data[:m])
	rt.Assert(got == want, "16k hash covers exactly the first min(len, 16384) bytes")
}

// Volume layout for larger block counts: the (start, count) segments written
// partition 0..n-1 with doubling sizes (names vol<start>+<count>).
func VerifHarness_C05_volume_layout() {
	parity := 1 + rt.Choice("parity", 40)
	s := buildArchive([]int{2}, parity, 1)
	next := 0
	size := 1
	for _, w := range s.fs.writes[1:] {
		pk := refParse(w.data, "volume")
		cnt := 0
		for _, p := range pk {
			if p.typ == "PAR 2.0\x00RecvSlic" {
				e := int(uint32(le64(padTo(p.body[0:4], 8))))
				rt.Assert(e == next+cnt, "volume file holds consecutive exponents in order")
				cnt++
			}
		}
		want := size
		if next+want > parity {
			want = parity - next
		}
		rt.Assert(cnt == want, "volume sizes double: 1, 2, 4, ... with the last one clamped")
		next += cnt
		size *= 2
	}
	rt.Assert(next == parity, "volume files together hold blocks 0..n-1")
}
