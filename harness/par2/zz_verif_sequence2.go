package par2

// More operations on several sets in one process (hidden state keyed too
// coarsely: by file id, by set id, by counts).  Two "generations" of a large
// file share name, length and first 16 KiB, hence file id and set id.

import (
	rt "github.com/akalin/gopar/internal/zzverifrt"
)

func init() {
	rt.Register("C03_two_generations", VerifHarness_C03_two_generations)
	rt.Register("C02_two_generations", VerifHarness_C02_two_generations)
	rt.Register("C06_two_exponent_sets", VerifHarness_C06_two_exponent_sets)
	rt.Register("C13_damage_after_verify", VerifHarness_C13_damage_after_verify)
	rt.Register("C18_fault_then_other_set", VerifHarness_C18_fault_then_other_set)
}

func genB() []byte {
	d := bigData()
	d[16386] ^= 0x5A
	return d
}

// Verify generation A, then generation B (same set id): B intact verifies
// clean with every slice usable; B's directory holding A's file does not.
func VerifHarness_C03_two_generations() {
	a := bigScenario(bigData())
	res, err := verify(a.fs, scnIndex, VerifyOptions{NumGoroutines: 1})
	rt.Assert(err == nil && !res.ShardCounts.RepairNeeded(), "the fresh set verifies clean")
	b := bigScenario(genB())
	if rt.Bool("staleFile") {
		b.fs.put(fileName(0), bigData())
		res, err = verify(b.fs, scnIndex, VerifyOptions{NumGoroutines: 1})
		rt.Assert(err == nil && res.ShardCounts.RepairNeeded() && res.ShardCounts.UnusableDataShardCount == 1, "a slice whose content is absent from every surviving file is not counted usable")
	} else {
		res, err = verify(b.fs, scnIndex, VerifyOptions{NumGoroutines: 1})
		rt.Assert(err == nil && res.ShardCounts.UsableDataShardCount == 3 && !res.ShardCounts.RepairNeeded(), "every slice of an undamaged file is counted usable")
	}
}

// Repair generation A (last slice lost), then generation B with A's recovery
// file beside it and its last slice lost: nothing but B's own bytes may be written.
func VerifHarness_C02_two_generations() {
	a := bigScenario(bigData())
	vol := scnDir + "/s.vol00+01.par2"
	volA := append([]byte(nil), a.fs.files[vol]...)
	a.fs.put(fileName(0), append([]byte(nil), a.orig[0][:16384]...))
	_, err := checkRepair(a, false, 1)
	rt.Assert(err == nil, "damage within recovery capacity: Repair succeeds")
	b := bigScenario(genB())
	b.fs.put(vol, volA)
	b.fs.put(fileName(0), append([]byte(nil), b.orig[0][:16384]...))
	_, err = checkRepair(b, rt.Bool("doubleCheck"), 1)
	rt.Assert(err != nil, "the other generation's block cannot restore the file: Repair reports an error")
}

// Two reference-written sets with the same slice and block counts but
// different exponents, repaired one after the other.
func VerifHarness_C06_two_exponent_sets() {
	files := []c06File{{"f0", []byte{1, 2, 3, 4, 5}}}
	pairs := [][2][]int{{{0, 1}, {0, 3}}, {{0, 1}, {2, 7}}, {{1, 0}, {5, 100}}}[rt.Choice("exponents", 3)]
	for _, exps := range pairs {
		s := c06Scenario(files, exps, []string{"s.vol0+1.par2"}, false)
		_, rerr := checkRepair(s, rt.Bool("doubleCheck"), 1)
		lo, hi := exps[0], exps[1]
		if lo > hi {
			lo, hi = hi, lo
		}
		det := rt.GFMul(refPowC(refConstant(0), lo), refPowC(refConstant(1), hi)) ^ rt.GFMul(refPowC(refConstant(1), lo), refPowC(refConstant(0), hi))
		if det != 0 {
			rt.Assert(rerr == nil, "Repair uses the blocks and restores the file")
		}
	}
}

// Verify the intact set, then flip one byte inside a packet body of the
// volume file (header untouched) and run Verify and Repair again.
func VerifHarness_C13_damage_after_verify() {
	s := smallArchive()
	res, err := verify(s.fs, scnIndex, VerifyOptions{NumGoroutines: 1})
	rt.Assert(err == nil && !res.ShardCounts.RepairNeeded() && res.ShardCounts.UsableParityShardCount == 1, "the fresh set verifies clean")
	data := append([]byte(nil), s.fs.files[scnVol]...)
	// the recovery packet is the last one: its data are the last scnSlice bytes
	data[len(data)-1-rt.Choice("back", scnSlice)] ^= 0x10
	s.fs.put(scnVol, data)
	res, err = verify(s.fs, scnIndex, VerifyOptions{NumGoroutines: 1})
	if err == nil {
		rt.Assert(res.ShardCounts.UsableParityShardCount == 0, "usable recovery blocks == intact recovery blocks beside the index")
	}
	s.fs.remove(s.paths[0])
	robustOps(s, true)
}

// A write fault during the Repair of one set, then a fault-free Repair of
// another set in the same process.
func VerifHarness_C18_fault_then_other_set() {
	a := buildArchiveMode([]int{5, 4}, 3, 1, contentDistinct)
	a.fs.remove(a.paths[0])
	a.fs.put(a.paths[1], []byte{9, 9, 9, 9})
	a.fs.nWrite = 0
	a.fs.failWrite = 1 + rt.Choice("write#", 2)
	a.fs.tornLen = []int{-1, 0, 2}[rt.Choice("torn", 3)]
	_, err := repair(a.fs, scnIndex, RepairOptions{NumGoroutines: 1})
	rt.Assert(err != nil, "a failed read, listing or write makes Repair return an error")
	b := buildArchiveMode([]int{8}, 2, 1, contentDuplicate)
	b.fs.remove(b.paths[0])
	_, err = checkRepair(b, false, 1)
	rt.Assert(err == nil, "once the fault is gone an unrelated Repair completes as if it had never occurred")
}
