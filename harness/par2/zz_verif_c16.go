package par2

// C16 (a): the rolling CRC32 of the sliding window, and the lemma that
// justifies replacing fileIDLess by its specification in scenario harnesses.

import (
	"hash/crc32"

	rt "github.com/akalin/gopar/internal/zzverifrt"
)

func init() {
	rt.Register("C16_crc_window", VerifHarness_C16_crc_window)
	rt.Register("C16_crc_window_big", VerifHarness_C16_crc_window_big)
	rt.Register("C05_fileIDLess", VerifHarness_C05_fileIDLess)
}

func crcWindowCase(n int) {
	a := rt.Bytes("a", n+1)
	w := newCRC32Window(n)
	crc0 := crc32.ChecksumIEEE(a[:n])
	got := w.update(crc0, a[0], a[n])
	want := crc32.ChecksumIEEE(a[1:])
	rt.Assert(got == want, "update(crc(a[0:n]), a[0], a[n]) == crc(a[1:n+1])")
}

func VerifHarness_C16_crc_window() {
	crcWindowCase([]int{4, 8, 12, 16, 20, 32, 36, 64, 68, 252, 256}[rt.Choice("n", 11)])
}

func VerifHarness_C16_crc_window_big() {
	crcWindowCase([]int{24, 28, 100, 128, 256, 512, 1000, 2000}[rt.Choice("n", 8)])
}

func VerifHarness_C05_fileIDLess() {
	var a, b fileID
	copy(a[:], rt.Bytes("a", 16))
	copy(b[:], rt.Bytes("b", 16))
	rt.Assert(fileIDLess(a, b) == specFileIDLess(a, b), "fileIDLess == little-endian 128-bit unsigned comparison")
}
