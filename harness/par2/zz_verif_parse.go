package par2

// C13 / C19 (PAR2): truncation at every offset, symbolic unchecksummed header
// fields, corrupted regions, missing files, and well-checksummed but
// inconsistent archives produced by a reference writer.  The assertion is
// always the same: Verify and Repair terminate without a panic, any result is
// truthful and nothing but exact originals is written.

import (
	"crypto/md5"

	rt "github.com/akalin/gopar/internal/zzverifrt"
)

func init() {
	rt.Register("C13_truncate_index", VerifHarness_C13_truncate_index)
	rt.Register("C13_truncate_volume", VerifHarness_C13_truncate_volume)
	rt.Register("C13_big_truncate", VerifHarness_C13_big_truncate)
	rt.Register("C13_truncate_data", VerifHarness_C13_truncate_data)
	rt.Register("C13_corrupt_byte", VerifHarness_C13_corrupt_byte)
	rt.Register("C13_delete_subset", VerifHarness_C13_delete_subset)
	rt.Register("C13_interrupted_create", VerifHarness_C13_interrupted_create)
	rt.Register("C19_packet_length", VerifHarness_C19_packet_length)
	rt.Register("C19_main_fields", VerifHarness_C19_main_fields)
	rt.Register("C19_desc_fields", VerifHarness_C19_desc_fields)
	rt.Register("C19_recovery_fields", VerifHarness_C19_recovery_fields)
	rt.Register("C19_missing_packets", VerifHarness_C19_missing_packets)
	rt.Register("C19_file_hash", VerifHarness_C19_file_hash)
}

const scnVol = scnDir + "/s.vol00+01.par2"

// robustOps runs Verify and Repair on the current state and asserts the
// robustness contract; a panic anywhere is reported by the engine.
func robustOps(s *scenario, truthful bool) {
	w0 := len(s.fs.writes)
	res, err := verify(s.fs, scnIndex, VerifyOptions{NumGoroutines: 1})
	rt.Assert(len(s.fs.writes) == w0, "Verify writes nothing")
	if err == nil && truthful {
		if !res.ShardCounts.RepairNeeded() {
			rt.Assert(allIntact(s), "clean verdict only for an intact set")
		}
		rt.Reach("verify-result")
	} else if err != nil {
		rt.Reach("verify-error")
	}
	checkRepairMode(s, rt.Bool("doubleCheck"), 1, truthful)
}

func smallArchive() *scenario {
	return buildArchiveMode([]int{5}, 1, 1, contentDistinct)
}

func VerifHarness_C13_truncate_index() {
	s := smallArchive()
	data := s.fs.files[scnIndex]
	n := rt.Choice("cut", len(data)+1)
	s.fs.put(scnIndex, append([]byte(nil), data[:n]...))
	if rt.Bool("damageData") {
		s.fs.remove(s.paths[0])
	}
	robustOps(s, true)
}

// A protected file longer than 16 KiB (so that the 16k hash covers a proper
// prefix), slice size 8192, cut at lengths around the prefix boundary and the
// slice boundaries.
func VerifHarness_C13_big_truncate() {
	useFileIDLessSpec()
	const n = 16388
	data := make([]byte, n)
	for i := range data {
		data[i] = byte(i*7 + i/251 + 1)
	}
	s := &scenario{fs: newSymFS(), parity: 1}
	s.orig = [][]byte{data}
	s.paths = []string{fileName(0)}
	s.fs.put(fileName(0), append([]byte(nil), data...))
	err := create(s.fs, scnIndex, s.paths, CreateOptions{SliceByteCount: 8192, NumParityShards: 1, NumGoroutines: 1})
	rt.Assert(err == nil, "Create succeeds on the scenario")
	if rt.Bool("sameLength") {
		// damage in place, before / at / after the 16 KiB prefix
		d := append([]byte(nil), data...)
		d[[]int{0, 16383, 16384, 16387}[rt.Choice("at", 4)]] ^= 0x40
		s.fs.put(fileName(0), d)
	} else {
		cut := []int{0, 1, 8191, 8192, 16383, 16384, 16385, 16387}[rt.Choice("cut", 8)]
		s.fs.put(fileName(0), append([]byte(nil), data[:cut]...))
	}
	robustOps(s, true)
}

func VerifHarness_C13_truncate_volume() {
	s := smallArchive()
	data := s.fs.files[scnVol]
	n := rt.Choice("cut", len(data)+1)
	s.fs.put(scnVol, append([]byte(nil), data[:n]...))
	if rt.Bool("damageData") {
		s.fs.remove(s.paths[0])
	}
	robustOps(s, true)
}

func VerifHarness_C13_truncate_data() {
	s := buildArchiveMode([]int{9}, 1, 1, contentDistinct)
	n := rt.Choice("cut", 10)
	s.fs.put(s.paths[0], append([]byte(nil), s.orig[0][:n]...))
	robustOps(s, true)
}

// one byte at any offset of the index or the volume file replaced by any value
func VerifHarness_C13_corrupt_byte() {
	s := smallArchive()
	target := scnIndex
	if rt.Bool("volume") {
		target = scnVol
	}
	data := append([]byte(nil), s.fs.files[target]...)
	off := rt.Choice("offset", len(data))
	v := rt.Byte("value")
	rt.Assume(v != data[off])
	data[off] = v
	s.fs.put(target, data)
	if rt.Bool("damageData") {
		s.fs.remove(s.paths[0])
	}
	robustOps(s, true)
}

func VerifHarness_C13_delete_subset() {
	s := buildArchiveMode([]int{5, 4}, 2, 1, contentDistinct)
	for _, p := range append([]string{}, s.fs.order...) {
		switch rt.Choice("state:"+p, 3) {
		case 1:
			s.fs.remove(p)
		case 2:
			s.fs.put(p, []byte{})
		}
	}
	robustOps(s, true)
}

// the prefix left behind by an interrupted Create: only the first k files
// were written, the last of them cut at a packet boundary
func VerifHarness_C13_interrupted_create() {
	s := buildArchiveMode([]int{5}, 3, 1, contentDistinct)
	writes := append([]fsWrite(nil), s.fs.writes...)
	for _, w := range writes {
		s.fs.remove(w.path)
	}
	k := 1 + rt.Choice("filesWritten", len(writes))
	for i := 0; i < k; i++ {
		data := writes[i].data
		if i == k-1 {
			// packet boundaries of the last file
			var cuts []int
			off := 0
			for off < len(data) {
				cuts = append(cuts, off)
				off += int(le64(data[off+8 : off+16]))
			}
			cuts = append(cuts, len(data))
			data = data[:cuts[rt.Choice("tornAt", len(cuts))]]
		}
		s.fs.put(writes[i].path, append([]byte(nil), data...))
	}
	if rt.Bool("damageData") {
		s.fs.remove(s.paths[0])
	}
	robustOps(s, true)
}

// ---- C19: re-checksummed but inconsistent archives ----

type refPkt struct {
	typ  string
	body []byte
}

func put64(v uint64) []byte {
	b := make([]byte, 8)
	for i := range b {
		b[i] = byte(v >> (8 * uint(i)))
	}
	return b
}

func put32(v uint32) []byte { return put64(uint64(v))[:4] }

// refWrite serialises packets with correct framing and packet hashes; the
// Length field of packet lenOverride (if >= 0) is replaced by lenValue.
func refWrite(setID [16]byte, pkts []refPkt, lenOverride int, lenValue uint64) []byte {
	var out []byte
	for i, p := range pkts {
		var typ [16]byte
		copy(typ[:], p.typ)
		var hin []byte
		hin = append(hin, setID[:]...)
		hin = append(hin, typ[:]...)
		hin = append(hin, p.body...)
		h := md5.Sum(hin)
		out = append(out, refMagic...)
		l := uint64(64 + len(p.body))
		if i == lenOverride {
			l = lenValue
		}
		out = append(out, put64(l)...)
		out = append(out, h[:]...)
		out = append(out, hin...)
	}
	return out
}

type refFile struct {
	name   string
	data   []byte
	length uint64 // declared length
}

type refSet struct {
	sliceSize uint64
	count     uint32
	files     []refFile
	exps      []uint32
	recvLen   int
	dropMain  bool
	dropDesc  bool
	dropIFSC  bool
	dropCreat bool
	recvFirst bool // recovery packets written before every other packet of the volume
	dupMain   bool
	// declared whole-file MD5 (nil: the real one); exercises the final hash check
	fileHash []byte
	// recovery data computed from the file (exponents 0 and 1) instead of arbitrary bytes
	validRecovery bool
}

// build emits an index file and one volume file for the set description, with
// every hash computed over the actual bytes.
func (r *refSet) build() (index, volume []byte) {
	type meta struct {
		id   [16]byte
		desc []byte
		ifsc []byte
	}
	var metas []meta
	for _, f := range r.files {
		h := md5.Sum(f.data)
		var idIn []byte
		idIn = append(idIn, h[:]...)
		idIn = append(idIn, put64(f.length)...)
		idIn = append(idIn, []byte(f.name)...)
		id := md5.Sum(idIn)
		var desc []byte
		desc = append(desc, id[:]...)
		if r.fileHash != nil {
			desc = append(desc, r.fileHash...)
		} else {
			desc = append(desc, h[:]...)
		}
		desc = append(desc, h[:]...)
		desc = append(desc, put64(f.length)...)
		desc = append(desc, nullPad4(f.name)...)
		var ifsc []byte
		ifsc = append(ifsc, id[:]...)
		for _, sl := range slicesOf(f.data) {
			m := md5.Sum(sl)
			ifsc = append(ifsc, m[:]...)
			ifsc = append(ifsc, put32(crc32IEEE(sl))...)
		}
		metas = append(metas, meta{id, desc, ifsc})
	}
	// ids must be ascending; with one file that is trivially so
	var main []byte
	main = append(main, put64(r.sliceSize)...)
	main = append(main, put32(r.count)...)
	for _, m := range metas {
		main = append(main, m.id[:]...)
	}
	setID := md5.Sum(main)
	var common []refPkt
	if !r.dropCreat {
		common = append(common, refPkt{"PAR 2.0\x00Creator", []byte("ref\x00")})
	}
	if !r.dropMain {
		common = append(common, refPkt{"PAR 2.0\x00Main", main})
		if r.dupMain {
			common = append(common, refPkt{"PAR 2.0\x00Main", main})
		}
	}
	for _, m := range metas {
		if !r.dropDesc {
			common = append(common, refPkt{"PAR 2.0\x00FileDesc", m.desc})
		}
		if !r.dropIFSC {
			common = append(common, refPkt{"PAR 2.0\x00IFSC", m.ifsc})
		}
	}
	index = refWrite(setID, common, -1, 0)
	vol := append([]refPkt(nil), common...)
	if r.recvFirst {
		// packet order is free: recovery packets ahead of the main packet
		vol = nil
	}
	for k, e := range r.exps {
		body := put32(e)
		if r.validRecovery {
			// block e = sum_i slice_i * c_i^e on little-endian words (single file: slices in order)
			sl := slicesOf(r.files[0].data)
			blk := make([]byte, scnSlice)
			for w := 0; w < scnSlice/2; w++ {
				var sum uint16
				for i, s := range sl {
					x := uint16(s[2*w]) | uint16(s[2*w+1])<<8
					sum ^= rt.GFMul(refPowC(refConstant(i), int(e)), x)
				}
				blk[2*w], blk[2*w+1] = byte(sum), byte(sum>>8)
			}
			body = append(body, blk...)
		} else {
			body = append(body, rt.Bytes("recv"+string(rune('0'+k)), r.recvLen)...)
		}
		vol = append(vol, refPkt{"PAR 2.0\x00RecvSlic", body})
	}
	if r.recvFirst {
		vol = append(vol, common...)
	}
	volume = refWrite(setID, vol, -1, 0)
	return
}

func crc32IEEE(b []byte) uint32 {
	crc := ^uint32(0)
	for _, x := range b {
		crc ^= uint32(x)
		for k := 0; k < 8; k++ {
			crc = crc>>1 ^ (0xEDB88320 & -(crc & 1))
		}
	}
	return ^crc
}

func refScenario(r *refSet, present bool) *scenario {
	useFileIDLessSpec()
	s := &scenario{fs: newSymFS(), parity: len(r.exps)}
	for _, f := range r.files {
		p := scnDir + "/" + f.name
		s.paths = append(s.paths, p)
		s.orig = append(s.orig, f.data)
		if present {
			s.fs.put(p, append([]byte(nil), f.data...))
		}
	}
	idx, vol := r.build()
	s.fs.put(scnIndex, idx)
	s.fs.put(scnVol, vol)
	return s
}

func baseRefSet() *refSet {
	return &refSet{sliceSize: scnSlice, count: 1, files: []refFile{{"f0", []byte{1, 2, 3, 4, 5}, 5}}, exps: []uint32{0}, recvLen: scnSlice}
}

// the Length field of any one packet of the index or volume file is arbitrary
// (it is outside the packet hash)
func VerifHarness_C19_packet_length() {
	s := smallArchive()
	target := scnIndex
	if rt.Bool("volume") {
		target = scnVol
	}
	data := append([]byte(nil), s.fs.files[target]...)
	var offs []int
	off := 0
	for off < len(data) {
		offs = append(offs, off)
		off += int(le64(data[off+8 : off+16]))
	}
	k := offs[rt.Choice("packet", len(offs))]
	copy(data[k+8:k+16], rt.Bytes("length", 8))
	s.fs.put(target, data)
	if rt.Bool("damageData") {
		s.fs.remove(s.paths[0])
	}
	robustOps(s, true)
}

// boundary values named by the property (0, 1, field+-1, 2^31, 2^62, 2^63, 2^64-1 ...)
var (
	bSliceSize = []uint64{0, 1, 2, 4, 8, 12, 1 << 62, 1<<63 - 4, 1 << 63, 1<<64 - 4}
	bCount     = []uint32{0, 1, 2, 3, 1 << 31, 1<<32 - 1}
	bLength    = []uint64{0, 1, 3, 4, 5, 6, 7, 8, 9, 12, 1 << 31, 1<<63 - 1, 1 << 63, 1<<64 - 1}
	bExponent  = []uint32{0, 1, 2, 7, 65534, 65535, 65536, 1 << 31, 1<<32 - 1}
)

func VerifHarness_C19_main_fields() {
	r := baseRefSet()
	r.sliceSize = bSliceSize[rt.Choice("sliceSize", len(bSliceSize))]
	r.count = bCount[rt.Choice("count", len(bCount))]
	s := refScenario(r, !rt.Bool("dataMissing"))
	robustOps(s, false)
}

func VerifHarness_C19_desc_fields() {
	r := baseRefSet()
	r.files[0].length = bLength[rt.Choice("declaredLength", len(bLength))]
	s := refScenario(r, !rt.Bool("dataMissing"))
	robustOps(s, false)
}

func VerifHarness_C19_recovery_fields() {
	r := baseRefSet()
	r.exps = []uint32{bExponent[rt.Choice("exponent", len(bExponent))]}
	r.recvLen = 4 * rt.Choice("recvWords", 3)
	r.recvFirst = rt.Bool("recoveryFirst")
	state := rt.Choice("dataState", 3)
	s := refScenario(r, state != 1)
	if state == 2 {
		// one slice of the data file damaged: reconstruction mixes data and recovery slices
		d := append([]byte(nil), s.orig[0]...)
		d[0] ^= 0xff
		s.fs.put(s.paths[0], d)
	}
	robustOps(s, false)
}

// The declared whole-file hash is arbitrary (the file id does not depend on
// it): Repair must not write data whose MD5 differs from the declared one.
func VerifHarness_C19_file_hash() {
	r := baseRefSet()
	r.exps = []uint32{0, 1}
	r.validRecovery = true
	r.fileHash = rt.Bytes("declaredHash", 16)
	s := refScenario(r, false)
	w0 := len(s.fs.writes)
	res, err := repair(s.fs, scnIndex, RepairOptions{DoubleCheck: rt.Bool("doubleCheck"), NumGoroutines: 1})
	for _, w := range s.fs.writes[w0:] {
		m := md5.Sum(w.data)
		rt.Assert(bytesEqual(m[:], r.fileHash), "written data has the MD5 the archive declares for the file")
		rt.Reach("written")
	}
	if err == nil {
		rt.Assert(len(res.RepairedPaths) == len(s.fs.writes)-w0, "RepairedPaths lists exactly the files written")
	} else {
		rt.Reach("rejected")
	}
}

func VerifHarness_C19_missing_packets() {
	r := baseRefSet()
	switch rt.Choice("which", 5) {
	case 0:
		r.dropMain = true
	case 1:
		r.dropDesc = true
	case 2:
		r.dropIFSC = true
	case 3:
		r.dropCreat = true
	case 4:
		r.dupMain = true
	}
	s := refScenario(r, !rt.Bool("dataMissing"))
	robustOps(s, false)
}
