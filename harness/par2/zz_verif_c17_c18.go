package par2

// C17 (Create is deterministic and invariant under irrelevant variation) and
// C18 (I/O failures are reported, never swallowed, never worsen the data).

import (
	rt "github.com/akalin/gopar/internal/zzverifrt"
	"io"
	"os"
	"strings"
	"syscall"
)

func init() {
	rt.Register("C17_order_goroutines", VerifHarness_C17_order_goroutines)
	rt.Register("C17_map_order", VerifHarness_C17_map_order)
	rt.Register("C17_order_three", VerifHarness_C17_order_three)
	rt.Register("C17_paths", VerifHarness_C17_paths)
	rt.Register("C18_create_faults", VerifHarness_C18_create_faults)
	rt.Register("C18_verify_faults", VerifHarness_C18_verify_faults)
	rt.Register("C18_repair_faults", VerifHarness_C18_repair_faults)
	rt.Register("C18_index_only_faults", VerifHarness_C18_index_only_faults)
}

func sameWrites(a, b []fsWrite, what string) {
	rt.Assert(len(a) == len(b), what+": same number of files written")
	for i := range a {
		if i >= len(b) {
			break
		}
		rt.Assert(a[i].path == b[i].path, what+": same file names in the same order")
		rt.Assert(bytesEqual(a[i].data, b[i].data), what+": byte-identical files")
	}
}

func twoRuns(lens []int, parity int, permute func([]string) []string, gA, gB int, adversarialMaps bool) {
	useFileIDLessSpec()
	var contents [][]byte
	for i, n := range lens {
		contents = append(contents, rt.Bytes("f"+string(rune('0'+i)), n))
	}
	run := func(paths []string, g int) []fsWrite {
		fs := newSymFS()
		for i := range lens {
			fs.put(fileName(i), append([]byte(nil), contents[i]...))
		}
		err := create(fs, scnIndex, paths, CreateOptions{SliceByteCount: scnSlice, NumParityShards: parity, NumGoroutines: g})
		rt.Assert(err == nil, "Create succeeds")
		return fs.writes
	}
	var paths []string
	for i := range lens {
		paths = append(paths, fileName(i))
	}
	a := run(paths, gA)
	if adversarialMaps {
		rt.MapOrderAdversarial("runB")
	}
	b := run(permute(append([]string(nil), paths...)), gB)
	rt.MapOrderDefault()
	sameWrites(a, b, "two Create runs")
	if adversarialMaps && !rt.IsSymbolic() {
		// natively the map order cannot be chosen: repeat the run so that a
		// dependence on it shows up with overwhelming probability
		for i := 0; i < 24; i++ {
			sameWrites(a, run(paths, gB), "two Create runs")
		}
	}
}

func VerifHarness_C17_order_goroutines() {
	twoRuns([]int{5, 4}, 2, func(p []string) []string { return []string{p[1], p[0]} }, 1, 1+rt.Choice("gB", 3), false)
}

func VerifHarness_C17_order_three() {
	perm := rt.Choice("perm", 6)
	permute := func(p []string) []string {
		idx := [][]int{{0, 1, 2}, {0, 2, 1}, {1, 0, 2}, {1, 2, 0}, {2, 0, 1}, {2, 1, 0}}[perm]
		return []string{p[idx[0]], p[idx[1]], p[idx[2]]}
	}
	twoRuns([]int{5, 4, 3}, 2, permute, 1, 1+rt.Choice("gB", 3), false)
}

func VerifHarness_C17_map_order() {
	twoRuns([]int{5, 4}, 3, func(p []string) []string { return p }, 1, 1, true)
}

// the same files spelled differently, from different working directories
func VerifHarness_C17_paths() {
	useFileIDLessSpec()
	const root = "/tmp/zzverif"
	content := rt.Bytes("f", 5)
	run := func(cwd, par string, file string) []fsWrite {
		rt.SetCwd(cwd)
		fs := newSymFS()
		fs.put(root+"/d/sub/f0", append([]byte(nil), content...))
		err := create(fs, par, []string{file}, CreateOptions{SliceByteCount: scnSlice, NumParityShards: 1, NumGoroutines: 1})
		rt.Assert(err == nil, "Create succeeds")
		// written paths are compared as absolute paths
		var out []fsWrite
		for _, w := range fs.writes {
			p := w.path
			if len(p) == 0 || p[0] != '/' {
				p = cwd + "/" + p
			}
			out = append(out, fsWrite{p, w.data})
		}
		return out
	}
	a := run(root+"/d", root+"/d/s.par2", root+"/d/sub/f0")
	var b []fsWrite
	switch rt.Choice("spelling", 5) {
	case 0:
		b = run(root+"/d", "s.par2", "sub/f0")
	case 1:
		b = run(root+"/d", "./s.par2", "./sub//f0")
	case 2:
		b = run(root, "d/s.par2", "d/sub/f0")
	case 3:
		b = run(root+"/other", "../d/s.par2", root+"/d/./sub/f0")
	case 4:
		b = run(root+"/d/sub", "../s.par2", "f0")
	}
	rt.Assert(len(a) == len(b), "same number of files")
	for i := range a {
		if i < len(b) {
			rt.Assert(bytesEqual(a[i].data, b[i].data), "byte-identical output for every spelling / working directory")
		}
	}
}

// ---------- C18 ----------

func VerifHarness_C18_create_faults() {
	useFileIDLessSpec()
	mk := func() *symFS {
		fs := newSymFS()
		fs.put(fileName(0), []byte{1, 2, 3, 4, 5})
		fs.put(fileName(1), []byte{6, 7, 8})
		return fs
	}
	paths := []string{fileName(0), fileName(1)}
	opts := CreateOptions{SliceByteCount: scnSlice, NumParityShards: 3, NumGoroutines: 1}
	ref := mk()
	rt.Assert(create(ref, scnIndex, paths, opts) == nil, "fault-free Create succeeds")
	fs := mk()
	if rt.Bool("readFault") {
		fs.failRead = 1 + rt.Choice("read#", 2)
	} else {
		fs.failWrite = 1 + rt.Choice("write#", 3)
		fs.tornLen = []int{-1, 0, 64, 100}[rt.Choice("torn", 4)]
	}
	err := create(fs, scnIndex, paths, opts)
	rt.Assert(err != nil, "a failed read or write makes Create return an error")
	rt.Assert(bytesEqual(fs.files[fileName(0)], []byte{1, 2, 3, 4, 5}) && bytesEqual(fs.files[fileName(1)], []byte{6, 7, 8}), "input files untouched")
	// completed writes are identical to the fault-free run
	for i, w := range fs.writes {
		rt.Assert(w.path == ref.writes[i].path && bytesEqual(w.data, ref.writes[i].data), "files written before the fault are the fault-free ones")
	}
	// re-run without the fault: same final state as the fault-free run
	fs.failRead, fs.failWrite = 0, 0
	rt.Assert(create(fs, scnIndex, paths, opts) == nil, "re-run after the fault succeeds")
	for _, w := range ref.writes {
		rt.Assert(bytesEqual(fs.files[w.path], w.data), "re-run reaches the fault-free final state")
	}
}

func VerifHarness_C18_verify_faults() {
	s := buildArchiveMode([]int{5, 4}, 2, 1, contentDistinct)
	if rt.Bool("damage") {
		s.fs.remove(s.paths[0])
	}
	if rt.Bool("noVolumes") {
		// an index-only set: whatever additional listings the code then makes can fail too
		for _, p := range append([]string(nil), s.fs.order...) {
			if p != scnIndex && strings.HasSuffix(p, ".par2") {
				s.fs.remove(p)
			}
		}
	}
	s.fs.nRead, s.fs.nFind = 0, 0
	refRes, refErr := verify(s.fs, scnIndex, VerifyOptions{NumGoroutines: 1})
	rt.Assert(refErr == nil, "fault-free Verify returns a result")
	nReads, nFinds := s.fs.nRead, s.fs.nFind
	s.fs.nRead, s.fs.nFind = 0, 0
	if rt.Bool("globFault") {
		s.fs.failFindN = 1 + rt.Choice("listing#", nFinds)
	} else {
		s.fs.failRead = 1 + rt.Choice("read#", nReads)
		// what the failed read reports: only "does not exist" may be taken for a missing file
		s.fs.faultErr = []error{nil,
			&os.PathError{Op: "open", Path: "x", Err: syscall.ENAMETOOLONG},
			&os.PathError{Op: "open", Path: "x", Err: syscall.EACCES},
			&os.PathError{Op: "read", Path: "x", Err: syscall.EISDIR},
			&os.PathError{Op: "read", Path: "x", Err: syscall.EIO},
			io.ErrUnexpectedEOF}[rt.Choice("errno", 6)]
	}
	before := len(s.fs.writes)
	_, err := verify(s.fs, scnIndex, VerifyOptions{NumGoroutines: 1})
	rt.Assert(err != nil, "a failed read or directory listing makes Verify return an error (never a result computed from partial data)")
	rt.Assert(len(s.fs.writes) == before, "Verify writes nothing")
	s.fs.failFind, s.fs.failFindN, s.fs.failRead, s.fs.nRead, s.fs.nFind = false, 0, 0, 0, 0
	res2, err2 := verify(s.fs, scnIndex, VerifyOptions{NumGoroutines: 1})
	rt.Assert(err2 == nil && res2 == refRes, "re-run after the fault gives the fault-free result")
}

// An index-only set (every recovery file gone), data intact: Verify and Repair
// succeed fault-free; a fault at any of their reads or directory listings
// (however many the code makes in this state) is reported.
func VerifHarness_C18_index_only_faults() {
	s := buildArchiveMode([]int{5}, 2, 1, contentDistinct)
	for _, p := range append([]string(nil), s.fs.order...) {
		if p != scnIndex && strings.HasSuffix(p, ".par2") {
			s.fs.remove(p)
		}
	}
	doRepair := rt.Bool("repair")
	op := func() error {
		if doRepair {
			_, err := repair(s.fs, scnIndex, RepairOptions{NumGoroutines: 1, DoubleCheck: rt.Bool("doubleCheck")})
			return err
		}
		_, err := verify(s.fs, scnIndex, VerifyOptions{NumGoroutines: 1})
		return err
	}
	s.fs.nRead, s.fs.nFind = 0, 0
	rt.Assert(op() == nil, "fault-free operation on an intact index-only set succeeds")
	nReads, nFinds := s.fs.nRead, s.fs.nFind
	s.fs.nRead, s.fs.nFind = 0, 0
	if rt.Bool("globFault") {
		s.fs.failFindN = 1 + rt.Choice("listing#", nFinds)
	} else {
		s.fs.failRead = 1 + rt.Choice("read#", nReads)
	}
	rt.Assert(op() != nil, "a failed read or directory listing is reported as an error")
}

func VerifHarness_C18_repair_faults() {
	s := buildArchiveMode([]int{5, 4}, 3, 1, contentDistinct)
	// both files need rewriting
	s.fs.remove(s.paths[0])
	s.fs.put(s.paths[1], []byte{9, 9, 9, 9})
	// count the I/O of a fault-free run on a copy
	probe := newSymFS()
	for _, p := range s.fs.order {
		probe.put(p, s.fs.files[p])
	}
	_, perr := repair(probe, scnIndex, RepairOptions{NumGoroutines: 1})
	rt.Assert(perr == nil, "fault-free Repair succeeds")
	s.fs.nRead, s.fs.nWrite = 0, 0
	s.fs.writes = nil
	kind := rt.Choice("fault", 3)
	switch kind {
	case 0:
		s.fs.failRead = 1 + rt.Choice("read#", probe.nRead)
	case 1:
		s.fs.failFind = true
	case 2:
		s.fs.failWrite = 1 + rt.Choice("write#", probe.nWrite)
		s.fs.tornLen = []int{-1, 0, 2}[rt.Choice("torn", 3)]
	}
	before := map[string][]byte{}
	for _, p := range s.fs.order {
		before[p] = s.fs.files[p]
	}
	res, err := repair(s.fs, scnIndex, RepairOptions{NumGoroutines: 1})
	rt.Assert(err != nil, "a failed read, listing or write makes Repair return an error")
	for _, rp := range res.RepairedPaths {
		idx := -1
		for i, p := range s.paths {
			if p == rp {
				idx = i
			}
		}
		rt.Assert(idx >= 0 && bytesEqual(s.fs.files[rp], s.orig[idx]), "a path is reported repaired only if its write completed with the original bytes")
	}
	for p, d := range before {
		cur, ok := s.fs.files[p]
		written := false
		for _, w := range s.fs.writes {
			if w.path == p {
				written = true
			}
		}
		torn := kind == 2 && s.fs.tornLen >= 0
		if !written && !torn {
			rt.Assert(ok && bytesEqual(cur, d), "no file that was not being written is altered")
		}
	}
	// once the fault is gone the operation completes as if it had never occurred
	s.fs.failRead, s.fs.failFind, s.fs.failWrite, s.fs.nRead, s.fs.nWrite = 0, false, 0, 0, 0
	_, err2 := repair(s.fs, scnIndex, RepairOptions{NumGoroutines: 1})
	rt.Assert(err2 == nil && allIntact(s), "re-run after the fault restores every file")
}
