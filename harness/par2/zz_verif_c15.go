package par2

// C15: declared file names cannot direct reads or writes outside the archive
// directory.  The real checkFilename, path.Clean, filepath.Join / Dir / Rel are
// executed on names made of symbolic bytes over a traversal alphabet.

import (
	"path/filepath"

	rt "github.com/akalin/gopar/internal/zzverifrt"
)

func init() {
	rt.Register("C15_checkFilename", VerifHarness_C15_checkFilename)
	rt.Register("C15_checkFilename_long", VerifHarness_C15_checkFilename_long)
	rt.Register("C15_deep_traversal", VerifHarness_C15_deep_traversal)
	rt.Register("C15_getFilePath", VerifHarness_C15_getFilePath)
	rt.Register("C15_newEncoder", VerifHarness_C15_newEncoder)
}

const traversalAlphabet = "./\\a\x00\x80"

func symName(tag string, n int) string {
	b := rt.Bytes(tag, n)
	for _, c := range b {
		rt.Assume(rt.OneOf(c, traversalAlphabet))
	}
	return string(b)
}

// escapes is the oracle: resolve the name component by component below a
// base directory; report whether the walk ever leaves the base, ends at the
// base itself, or the name is absolute.
func escapes(name string) bool {
	if len(name) > 0 && name[0] == '/' {
		return true
	}
	depth := 0
	i := 0
	for i <= len(name) {
		j := i
		for j < len(name) && name[j] != '/' {
			j++
		}
		comp := name[i:j]
		switch {
		case comp == "" || comp == ".":
		case comp == "..":
			depth--
			if depth < 0 {
				return true
			}
		default:
			depth++
		}
		i = j + 1
	}
	return depth == 0
}

func hasDirPrefix(p, dir string) bool {
	return len(p) > len(dir)+1 && p[:len(dir)] == dir && p[len(dir)] == '/'
}

func checkFilenameCase(maxLen int) {
	n := rt.Choice("len", maxLen+1)
	name := symName("name", n)
	err := checkFilename(name)
	if err == nil {
		rt.Assert(!escapes(name), "accepted name does not escape (oracle)")
		d := &Decoder{indexPath: "/base/dir/set.par2"}
		p := d.getFilePath(decoderInputFileInfo{filename: name})
		rt.Assert(hasDirPrefix(p, "/base/dir"), "target path of an accepted name lies strictly inside the archive directory")
		rt.Reach("accepted")
	} else {
		rt.Reach("rejected")
	}
}

func VerifHarness_C15_checkFilename()      { checkFilenameCase(4) }
func VerifHarness_C15_checkFilename_long() { checkFilenameCase(6) }

// Deep traversal: k leading ".." components (k around 255/256/257/512, where a
// narrow counter would wrap) followed by a symbolic tail; every accepted name
// stays inside, so all of these must be rejected unless the tail climbs back —
// the oracle decides.
func VerifHarness_C15_deep_traversal() {
	k := []int{1, 255, 256, 257, 512}[rt.Choice("depth", 5)]
	b := make([]byte, 0, 3*k+8)
	for i := 0; i < k; i++ {
		b = append(b, '.', '.', '/')
	}
	name := string(b) + symName("tail", rt.Choice("len", 3))
	err := checkFilename(name)
	if err == nil {
		rt.Assert(!escapes(name), "accepted name does not escape (oracle)")
		rt.Reach("accepted")
	} else {
		rt.Reach("rejected")
	}
}

func VerifHarness_C15_getFilePath() {
	// relative index path: the target must stay below the index file's directory
	n := rt.Choice("len", 4)
	name := symName("name", n)
	if checkFilename(name) != nil {
		return
	}
	d := &Decoder{indexPath: "sub/set.par2"}
	p := d.getFilePath(decoderInputFileInfo{filename: name})
	rt.Assert(hasDirPrefix(p, "sub"), "relative index path: target stays below its directory")
}

// PAR2 Create refuses input files outside the index file's directory tree.
func VerifHarness_C15_newEncoder() {
	n := rt.Choice("len", 5)
	rel := symName("path", n)
	p := "/" + rel
	fsys := newSymFS()
	e, err := newEncoder(fsys, DoNothingCreateDelegate{}, "/a", []string{p}, 4, 1, 1)
	if err == nil {
		c := filepath.Clean(p)
		rt.Assert(hasDirPrefix(c, "/a"), "accepted input path lies inside the base directory")
		rt.Assert(checkFilename(e.relFilePaths[0]) == nil, "relative name of an accepted input is a valid declared name")
		rt.Reach("accepted")
	}
}
