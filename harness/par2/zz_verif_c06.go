package par2

// C06: sets written by an independent conformant writer are read correctly
// whatever their layout: packet order, duplicated packets, non-contiguous
// exponents spread over arbitrarily named volume files, interleaved packets of
// other sets and of unknown types, names in sub-directories.

import (
	"crypto/md5"

	rt "github.com/akalin/gopar/internal/zzverifrt"
)

// The real directory search (defaultFileIO -> filepath.Glob) on a modelled
// directory: a base name of 1..3 symbolic bytes over letters, spaces and the
// glob metacharacters; the recovery file <base>.vol0+1.par2 stored beside the
// index must be found.
func VerifHarness_C06_glob() {
	const dir = "/tmp/zzverif/g"
	n := 1 + rt.Choice("len", 3)
	bb := rt.Bytes("base", n)
	for _, c := range bb {
		rt.Assume(rt.OneOf(c, "aA -[]*?\\"))
	}
	base := string(bb)
	vol := base + ".vol0+1.par2"
	rt.SetDir(dir, []string{base + ".par2", vol, "other.par2"})
	got, err := defaultFileIO{}.FindWithPrefixAndSuffix(dir+"/"+base+".", ".par2")
	rt.Assert(err == nil, "directory search succeeds")
	found := false
	for _, g := range got {
		if g == dir+"/"+vol {
			found = true
		}
	}
	rt.Assert(found, "the recovery file stored beside the index is found whatever the base name")
}

// The same search in a directory with many entries (exactly 255, 256, 257,
// 512 — where a batched listing would end on a full batch).
func VerifHarness_C06_glob_many() {
	const dir = "/tmp/zzverif/gm"
	total := []int{255, 256, 257, 512}[rt.Choice("entries", 4)]
	names := []string{"s.par2", "s.vol0+1.par2", "s.vol1+1.par2"}
	for i := 0; len(names) < total; i++ {
		names = append(names, "x"+string(rune('0'+i/100))+string(rune('0'+i/10%10))+string(rune('0'+i%10)))
	}
	rt.SetDir(dir, names)
	got, err := defaultFileIO{}.FindWithPrefixAndSuffix(dir+"/s.", ".par2")
	rt.Assert(err == nil, "directory search succeeds")
	// "s.par2" itself is not <prefix><something><suffix>: exactly the two recovery files
	rt.Assert(len(got) == 2 && got[0] == dir+"/s.vol0+1.par2" && got[1] == dir+"/s.vol1+1.par2", "both recovery files are found, nothing else")
}

func init() {
	rt.Register("C06_glob_many", VerifHarness_C06_glob_many)
	rt.Register("C06_glob", VerifHarness_C06_glob)
	rt.Register("C06_basename", VerifHarness_C06_basename)
	rt.Register("C06_layouts", VerifHarness_C06_layouts)
	rt.Register("C06_volume_names", VerifHarness_C06_volume_names)
	rt.Register("C06_high_exponents", VerifHarness_C06_high_exponents)
}

type c06File struct {
	name string
	data []byte
}

// c06Packets returns the non-recovery packets of a set (creator first) and its id.
func c06Packets(files []c06File) ([16]byte, []refPkt, [][]byte) {
	type meta struct {
		id         [16]byte
		desc, ifsc []byte
		slices     [][]byte
	}
	var metas []meta
	for _, f := range files {
		h := md5.Sum(f.data)
		var idIn []byte
		idIn = append(idIn, h[:]...)
		idIn = append(idIn, put64(uint64(len(f.data)))...)
		idIn = append(idIn, []byte(f.name)...)
		id := md5.Sum(idIn)
		var desc []byte
		desc = append(desc, id[:]...)
		desc = append(desc, h[:]...)
		desc = append(desc, h[:]...)
		desc = append(desc, put64(uint64(len(f.data)))...)
		desc = append(desc, nullPad4(f.name)...)
		var ifsc []byte
		ifsc = append(ifsc, id[:]...)
		sl := slicesOf(f.data)
		for _, s := range sl {
			m := md5.Sum(s)
			ifsc = append(ifsc, m[:]...)
			ifsc = append(ifsc, put32(crc32IEEE(s))...)
		}
		metas = append(metas, meta{id, desc, ifsc, sl})
	}
	// ids ascending (concrete contents: decided natively)
	for i := 0; i < len(metas); i++ {
		for j := i + 1; j < len(metas); j++ {
			if refLess(metas[j].id[:], metas[i].id[:]) {
				metas[i], metas[j] = metas[j], metas[i]
			}
		}
	}
	var main []byte
	main = append(main, put64(scnSlice)...)
	main = append(main, put32(uint32(len(metas)))...)
	var all [][]byte
	for _, m := range metas {
		main = append(main, m.id[:]...)
		all = append(all, m.slices...)
	}
	setID := md5.Sum(main)
	pk := []refPkt{{"PAR 2.0\x00Creator", []byte("ref\x00")}, {"PAR 2.0\x00Main", main}}
	for _, m := range metas {
		pk = append(pk, refPkt{"PAR 2.0\x00FileDesc", m.desc}, refPkt{"PAR 2.0\x00IFSC", m.ifsc})
	}
	return setID, pk, all
}

func c06Block(all [][]byte, e int) []byte {
	blk := make([]byte, scnSlice)
	for w := 0; w < scnSlice/2; w++ {
		var sum uint16
		for i, s := range all {
			x := uint16(s[2*w]) | uint16(s[2*w+1])<<8
			sum ^= rt.GFMul(refPowC(refConstant(i), e), x)
		}
		blk[2*w], blk[2*w+1] = byte(sum), byte(sum>>8)
	}
	return blk
}

// c06Permute rearranges pk in one of several ways chosen by the solver:
// identity, reversed, rotated by one or two, evens-then-odds, or with the
// first element duplicated at the end.
func c06Permute(pk []refPkt, tag string) []refPkt {
	n := len(pk)
	out := make([]refPkt, 0, n+1)
	switch rt.Choice(tag, 6) {
	case 0:
		out = append(out, pk...)
	case 1:
		for i := n - 1; i >= 0; i-- {
			out = append(out, pk[i])
		}
	case 2:
		out = append(append(out, pk[1:]...), pk[0])
	case 3:
		out = append(append(out, pk[2%n:]...), pk[:2%n]...)
	case 4:
		for i := 0; i < n; i += 2 {
			out = append(out, pk[i])
		}
		for i := 1; i < n; i += 2 {
			out = append(out, pk[i])
		}
	case 5:
		out = append(append(out, pk...), pk[0])
	}
	return out
}

var c06Exponents = []int{0, 1, 2, 5, 7, 100, 1000, 3000}

func c06Scenario(files []c06File, exps []int, volNames []string, shuffle bool) *scenario {
	useFileIDLessSpec()
	s := &scenario{fs: newSymFS(), parity: len(exps)}
	for _, f := range files {
		s.paths = append(s.paths, scnDir+"/"+f.name)
		s.orig = append(s.orig, f.data)
	}
	setID, pk, all := c06Packets(files)
	var other [16]byte
	other[0] = 0x42
	idx := pk
	if shuffle {
		// keep a packet of the own set first, permute the rest, add duplicates and foreign packets
		idx = append([]refPkt{pk[1+rt.Choice("first", 2)]}, c06Permute(pk, "ip")...)
	}
	index := refWrite(setID, idx[:1], -1, 0)
	if shuffle {
		index = append(index, refWrite(other, []refPkt{{"PAR 2.0\x00Main", []byte("foreign set!")}}, -1, 0)...)
		index = append(index, refWrite(setID, []refPkt{{"EXT 1.0\x00Unknown", []byte("abcd")}}, -1, 0)...)
		// packets without a body (length == header size) are conformant: the
		// length only has to be a multiple of 4 that includes the header
		index = append(index, refWrite(setID, []refPkt{{"EXT 1.0\x00Empty", nil}}, -1, 0)...)
		index = append(index, refWrite(other, []refPkt{{"EXT 1.0\x00Empty", nil}}, -1, 0)...)
	}
	index = append(index, refWrite(setID, idx[1:], -1, 0)...)
	s.fs.put(scnIndex, index)
	for vi, name := range volNames {
		var vol []refPkt
		for k, e := range exps {
			if k%len(volNames) == vi {
				vol = append(vol, refPkt{"PAR 2.0\x00RecvSlic", append(put32(uint32(e)), c06Block(all, e)...)})
			}
		}
		body := append(append([]refPkt(nil), pk...), vol...)
		if shuffle {
			body = c06Permute(append(body, vol...), "vp"+string(rune('0'+vi))) // recovery packets duplicated
		}
		s.fs.put(scnDir+"/"+name, refWrite(setID, body, -1, 0))
	}
	return s
}

func VerifHarness_C06_layouts() {
	files := []c06File{{"sub/f0", []byte{1, 2, 3, 4, 5}}}
	exps := [][]int{{0, 1}, {1, 0}, {2, 7}, {5, 100}, {1000, 3}, {3000, 0}}[rt.Choice("exponents", 6)]
	s := c06Scenario(files, exps, []string{"s.vol0+1.par2"}, true)
	// the whole file is missing: both blocks are needed
	res, err := verify(s.fs, scnIndex, VerifyOptions{NumGoroutines: 1})
	rt.Assert(err == nil, "Verify reads the conformant set")
	if err == nil {
		rt.Assert(res.ShardCounts.UsableParityShardCount == 2, "every intact recovery block is found, whatever its exponent")
		rt.Assert(res.ShardCounts.UnusableDataShardCount == 2, "both slices of the missing file are unusable")
	}
	_, rerr := checkRepair(s, false, 1)
	// the PAR2 matrix can be singular for some exponent pairs: decided independently
	sub := [][]uint16{
		{refPowC(refConstant(0), exps[0]), refPowC(refConstant(1), exps[0])},
		{refPowC(refConstant(0), exps[1]), refPowC(refConstant(1), exps[1])},
	}
	lo, hi := sub[0], sub[1]
	if exps[0] > exps[1] {
		lo, hi = hi, lo
	}
	det := rt.GFMul(lo[0], hi[1]) ^ rt.GFMul(lo[1], hi[0])
	if det != 0 {
		rt.Assert(rerr == nil, "Repair uses the blocks and restores the file")
		rt.Reach("repaired")
	}
}

// Exponents near the top of the 16-bit range (plain packet order): the powers
// c_i^e are computed exactly, also where log(c_i) * e exceeds 16 bits.
func VerifHarness_C06_high_exponents() {
	files := []c06File{{"f0", []byte{1, 2, 3, 4, 5}}}
	exps := [][]int{{40000, 1}, {2, 65534}, {32768, 32769}}[rt.Choice("exponents", 3)]
	s := c06Scenario(files, exps, []string{"s.vol0+1.par2"}, false)
	res, err := verify(s.fs, scnIndex, VerifyOptions{NumGoroutines: 1})
	rt.Assert(err == nil, "Verify reads the conformant set")
	if err == nil {
		rt.Assert(res.ShardCounts.UsableParityShardCount == 2, "every intact recovery block is found, whatever its exponent")
	}
	_, rerr := checkRepair(s, false, 1)
	lo, hi := exps[0], exps[1]
	if lo > hi {
		lo, hi = hi, lo
	}
	det := rt.GFMul(refPowC(refConstant(0), lo), refPowC(refConstant(1), hi)) ^ rt.GFMul(refPowC(refConstant(1), lo), refPowC(refConstant(0), hi))
	if det != 0 {
		rt.Assert(rerr == nil, "Repair uses the blocks and restores the file")
		rt.Reach("repaired")
	}
}

func VerifHarness_C06_volume_names() {
	files := []c06File{{"f0", []byte{1, 2, 3, 4, 5}}, {"f1", []byte{9, 8, 7}}}
	names := [][]string{
		{"s.vol000+02.par2"},
		{"s.a.par2", "s.b.par2"},
		{"s.with space.par2", "s.x.y.par2"},
		{"s.vol0+1.par2", "s.vol1+1.par2", "s.extra.par2"},
		{"s.vol127+128.par2", "s.vol1000+1.par2"},
	}[rt.Choice("names", 5)]
	s := c06Scenario(files, []int{0, 1, 2}, names, false)
	if rt.Bool("copy") {
		// the same recovery block (exponent 0) once more in a differently named file,
		// as left behind by copying a volume or by overlapping par2 runs
		setID, pk, all := c06Packets(files)
		body := append(append([]refPkt(nil), pk...), refPkt{"PAR 2.0\x00RecvSlic", append(put32(0), c06Block(all, 0)...)})
		s.fs.put(scnDir+"/s.copy.par2", refWrite(setID, body, -1, 0))
	}
	if rt.Bool("strays") {
		// files that match <base>.*.par2 but hold nothing of this set, sorting before,
		// between and after the set's own volumes: another set's packets, and an empty file
		var other [16]byte
		other[0] = 0x42
		foreign := refWrite(other, []refPkt{{"PAR 2.0\x00Creator", []byte("zzz\x00")}}, -1, 0)
		s.fs.put(scnDir+"/s.0foreign.par2", foreign)
		s.fs.put(scnDir+"/s.empty.par2", []byte{})
		s.fs.put(scnDir+"/s.zforeign.par2", foreign)
	}
	res, err := verify(s.fs, scnIndex, VerifyOptions{NumGoroutines: 1})
	rt.Assert(err == nil, "Verify reads the conformant set")
	if err == nil {
		rt.Assert(res.ShardCounts.UsableParityShardCount == 3, "blocks distributed over arbitrarily named volume files are all found")
	}
	_, rerr := checkRepair(s, false, 1)
	rt.Assert(rerr == nil, "Repair restores both missing files from three blocks")
}

// The name arithmetic between the index path and the directory search: with a
// base name of 1..3 symbolic bytes over the letters of the extension itself,
// dots and spaces, LoadParityData must ask for exactly <dir>/<base>. + .par2.
// Together with C06_glob (the search itself) this gives: the recovery files
// beside the index are found whatever the base name.
type c06RecIO struct {
	indexPath      string
	index          []byte
	prefix, suffix string
	calls          int
}

func (r *c06RecIO) ReadFile(p string) ([]byte, error) {
	if p == r.indexPath {
		return append([]byte(nil), r.index...), nil
	}
	return nil, &ioFault{"read of a path that is not the index"}
}

func (r *c06RecIO) FindWithPrefixAndSuffix(prefix, suffix string) ([]string, error) {
	r.prefix, r.suffix = prefix, suffix
	r.calls++
	return nil, nil
}

func (r *c06RecIO) WriteFile(p string, data []byte) error { return &ioFault{"write"} }

func VerifHarness_C06_basename() {
	n := 1 + rt.Choice("len", 3)
	bb := rt.Bytes("base", n)
	for _, c := range bb {
		rt.Assume(rt.OneOf(c, "xpar2. "))
	}
	base := string(bb)
	setID, pk, _ := c06Packets([]c06File{{"f0", []byte{1, 2, 3, 4, 5}}})
	io := &c06RecIO{indexPath: "/d/" + base + ".par2", index: refWrite(setID, pk, -1, 0)}
	d, err := newDecoder(io, DoNothingDecoderDelegate{}, io.indexPath, 1)
	rt.Assert(err == nil, "the index file is read")
	if err != nil {
		return
	}
	err = d.LoadParityData()
	rt.Assert(err == nil, "LoadParityData succeeds on an empty search result")
	rt.Assert(io.calls == 1, "one directory search")
	rt.Assert(io.prefix == "/d/"+base+"." && io.suffix == ".par2", "the search is for <index path without extension>. and the index's extension, whatever the base name")
}
