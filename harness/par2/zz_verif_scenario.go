package par2

// The archive scenario shared by C01-C03, C05, C06, C13, C14, C16-C19: real
// Create on a symbolic file system with symbolic file contents, followed by
// damage and the real Verify / Repair.

import (
	rt "github.com/akalin/gopar/internal/zzverifrt"
)

const (
	scnDir   = "/d"
	scnIndex = "/d/s.par2"
	scnSlice = 4
)

type scenario struct {
	fs     *symFS
	paths  []string
	orig   [][]byte
	parity int
}

func fileName(i int) string { return scnDir + "/f" + string(rune('0'+i)) }

// buildArchive creates nfiles files of the given lengths with symbolic
// contents and protects them with the real Create.
func buildArchive(lens []int, parity, goroutines int) *scenario {
	return buildArchiveMode(lens, parity, goroutines, contentSymbolic)
}

const (
	contentSymbolic  = iota // every byte a solver variable
	contentDistinct         // fixed, pairwise distinct slices
	contentDuplicate        // fixed low-entropy content: every slice identical, zero tail
)

func fixedContent(mode, file, n int) []byte {
	b := make([]byte, n)
	for j := range b {
		if mode == contentDistinct {
			b[j] = byte(16*(file+1) + j + 1)
		} else {
			b[j] = byte(7 * (j % scnSlice))
		}
	}
	return b
}

func buildArchiveMode(lens []int, parity, goroutines, mode int) *scenario {
	useFileIDLessSpec()
	s := &scenario{fs: newSymFS(), parity: parity}
	for i, n := range lens {
		var data []byte
		if mode == contentSymbolic {
			data = rt.Bytes("f"+string(rune('0'+i)), n)
		} else {
			data = fixedContent(mode, i, n)
		}
		s.orig = append(s.orig, data)
		s.paths = append(s.paths, fileName(i))
		s.fs.put(fileName(i), append([]byte(nil), data...))
	}
	err := create(s.fs, scnIndex, s.paths, CreateOptions{SliceByteCount: scnSlice, NumParityShards: parity, NumGoroutines: goroutines})
	rt.Assert(err == nil, "Create succeeds on the scenario")
	return s
}

func init() {
	rt.Register("C05_probe", VerifHarness_C05_probe)
}

func VerifHarness_C05_probe() {
	s := buildArchive([]int{5}, 1, 1)
	rt.Assert(len(s.fs.writes) == 2, "index and one volume written")
}
