package par2

// The slice-search index (checksumShardLocationMap) against a reference keyed
// by the pair (CRC32, slice bytes): a window is attributed to a location iff
// its CRC32 and its MD5 both match the ones registered for that location.
// The CRC32 values are arbitrary 32-bit values, independent of the data, so
// that equal-CRC / different-content pairs (unreachable at slice size 4, where
// CRC32 is injective) are part of the explored space.

import (
	"crypto/md5"

	rt "github.com/akalin/gopar/internal/zzverifrt"
)

func init() {
	rt.Register("C16_locmap", VerifHarness_C16_locmap)
}

func VerifHarness_C16_locmap() {
	const sz = 8
	n := 2 + rt.Choice("n", 2)
	m := make(checksumShardLocationMap)
	crcs := make([]uint32, n)
	datas := make([][]byte, n)
	var id fileID
	for i := 0; i < n; i++ {
		crcs[i] = rt.U32("crc" + string(rune('0'+i)))
		datas[i] = rt.Bytes("d"+string(rune('0'+i)), sz)
		m.put(crcs[i], md5.Sum(datas[i]), shardLocation{id, i * sz})
	}
	qc := rt.U32("qcrc")
	qd := rt.Bytes("qd", sz)
	got := m.get(qc, qd)
	for i := 0; i < n; i++ {
		want := qc == crcs[i] && bytesEqual(qd, datas[i])
		rt.Assert(got[shardLocation{id, i * sz}] == want, "a window is attributed to a registered location iff CRC32 and content both match")
		if want {
			rt.Reach("hit")
		}
	}
}
