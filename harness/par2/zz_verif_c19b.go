package par2

// C19 (more): checksum-list counts that disagree with the file length, unsorted
// or duplicated file ids, a recovery-set count that disagrees with the id list,
// and traversal names in otherwise valid, fully repairable archives (C15).

import (
	"crypto/md5"

	rt "github.com/akalin/gopar/internal/zzverifrt"
)

func init() {
	rt.Register("C19_ifsc_count", VerifHarness_C19_ifsc_count)
	rt.Register("C19_id_lists", VerifHarness_C19_id_lists)
	rt.Register("C15_repair_names", VerifHarness_C15_repair_names)
}

// buildCustom emits index+volume for hand-assembled packet bodies.
func customSet(main []byte, extra []refPkt, recv [][]byte) (index, volume []byte) {
	setID := md5.Sum(main)
	common := []refPkt{{"PAR 2.0\x00Creator", []byte("ref\x00")}, {"PAR 2.0\x00Main", main}}
	common = append(common, extra...)
	index = refWrite(setID, common, -1, 0)
	vol := append([]refPkt(nil), common...)
	for e, blk := range recv {
		vol = append(vol, refPkt{"PAR 2.0\x00RecvSlic", append(put32(uint32(e)), blk...)})
	}
	volume = refWrite(setID, vol, -1, 0)
	return
}

type c19File struct {
	name   string
	data   []byte
	id     [16]byte
	desc   []byte
	ifsc   []byte
	slices [][]byte
}

func c19MakeFile(name string, data []byte, pairs int) c19File {
	f := c19File{name: name, data: data}
	h := md5.Sum(data)
	var idIn []byte
	idIn = append(idIn, h[:]...)
	idIn = append(idIn, put64(uint64(len(data)))...)
	idIn = append(idIn, []byte(name)...)
	f.id = md5.Sum(idIn)
	f.desc = append(f.desc, f.id[:]...)
	f.desc = append(f.desc, h[:]...)
	f.desc = append(f.desc, h[:]...)
	f.desc = append(f.desc, put64(uint64(len(data)))...)
	f.desc = append(f.desc, nullPad4(name)...)
	f.slices = slicesOf(data)
	f.ifsc = append(f.ifsc, f.id[:]...)
	for k := 0; k < pairs; k++ {
		sl := make([]byte, scnSlice)
		if k < len(f.slices) {
			sl = f.slices[k]
		}
		m := md5.Sum(sl)
		f.ifsc = append(f.ifsc, m[:]...)
		f.ifsc = append(f.ifsc, put32(crc32IEEE(sl))...)
	}
	return f
}

func c19Scenario(files []c19File, ids [][16]byte, count uint32, present []bool) *scenario {
	useFileIDLessSpec()
	s := &scenario{fs: newSymFS(), parity: 2}
	var main []byte
	main = append(main, put64(scnSlice)...)
	main = append(main, put32(count)...)
	for _, id := range ids {
		main = append(main, id[:]...)
	}
	var extra []refPkt
	var all [][]byte
	for i, f := range files {
		extra = append(extra, refPkt{"PAR 2.0\x00FileDesc", f.desc}, refPkt{"PAR 2.0\x00IFSC", f.ifsc})
		all = append(all, f.slices...)
		p := scnDir + "/" + f.name
		s.paths = append(s.paths, p)
		s.orig = append(s.orig, f.data)
		if present[i] {
			s.fs.put(p, append([]byte(nil), f.data...))
		}
	}
	idx, vol := customSet(main, extra, [][]byte{c06Block(all, 0), c06Block(all, 1)})
	s.fs.put(scnIndex, idx)
	s.fs.put(scnVol, vol)
	return s
}

// the number of checksum pairs disagrees with the file length
func VerifHarness_C19_ifsc_count() {
	pairs := rt.Choice("pairs", 5) // the 5-byte file has 2 slices; 0 = an empty checksum list
	f := c19MakeFile("f0", []byte{1, 2, 3, 4, 5}, pairs)
	state := rt.Choice("dataState", 3)
	s := c19Scenario([]c19File{f}, [][16]byte{f.id}, 1, []bool{state != 1})
	if state == 2 {
		s.fs.put(s.paths[0], []byte{9, 2, 3, 4, 5})
	}
	if state == 1 {
		res, err := verify(s.fs, scnIndex, VerifyOptions{NumGoroutines: 1})
		if err == nil {
			rt.Assert(res.ShardCounts.RepairNeeded(), "the only protected file (declared length 5) is absent: a result without error says repair is needed")
		}
	}
	robustOps(s, false)
}

// unsorted / duplicated ids, count larger or smaller than the id list
func VerifHarness_C19_id_lists() {
	a := c19MakeFile("f0", []byte{1, 2, 3, 4, 5}, 2)
	b := c19MakeFile("f1", []byte{6, 7, 8}, 1)
	lo, hi := a, b
	if refLess(b.id[:], a.id[:]) {
		lo, hi = b, a
	}
	var ids [][16]byte
	switch rt.Choice("ids", 5) {
	case 0:
		ids = [][16]byte{lo.id, hi.id}
	case 1:
		ids = [][16]byte{hi.id, lo.id} // unsorted
	case 2:
		ids = [][16]byte{lo.id, lo.id} // duplicate
	case 3:
		ids = [][16]byte{lo.id} // one id only
	case 4:
		ids = [][16]byte{lo.id, hi.id, hi.id}
	}
	count := uint32(rt.Choice("count", 5))
	missing := rt.Choice("missing", 3)
	s := c19Scenario([]c19File{lo, hi}, ids, count, []bool{missing != 1, missing != 2})
	robustOps(s, false)
}

// C15 in a fully repairable archive: the declared name is arbitrary (it only
// has to match the file id), the file is "missing", two valid recovery blocks
// are present: whatever Repair writes lies inside the archive directory.
func VerifHarness_C15_repair_names() {
	n := 1 + rt.Choice("len", 4)
	nb := rt.Bytes("name", n)
	for _, c := range nb {
		rt.Assume(rt.OneOf(c, "./a"))
	}
	name := string(nb)
	f := c19MakeFile(name, []byte{1, 2, 3, 4, 5}, 2)
	s := c19Scenario([]c19File{f}, [][16]byte{f.id}, 1, []bool{false})
	verify(s.fs, scnIndex, VerifyOptions{NumGoroutines: 1})
	repair(s.fs, scnIndex, RepairOptions{NumGoroutines: 1})
	for _, p := range s.fs.reads {
		ok := len(p) > len(scnDir)+1 && p[:len(scnDir)+1] == scnDir+"/"
		rt.Assert(ok, "every path read lies inside the archive directory")
	}
	for _, w := range s.fs.writes {
		ok := len(w.path) > len(scnDir)+1 && w.path[:len(scnDir)+1] == scnDir+"/"
		rt.Assert(ok, "every path written lies inside the archive directory")
		rt.Reach("written")
	}
}
