package par2

// C01, C02, C03, C14, C16(b): damage, then the real Verify / Repair.

import (
	"crypto/md5"

	rt "github.com/akalin/gopar/internal/zzverifrt"
)

func init() {
	rt.Register("C03_verify_one", VerifHarness_C03_verify_one)
	rt.Register("C03_verify_two", VerifHarness_C03_verify_two)
	rt.Register("C03_verify_arbitrary", VerifHarness_C03_verify_arbitrary)
	rt.Register("C01_repair_one", VerifHarness_C01_repair_one)
	rt.Register("C01_repair_two", VerifHarness_C01_repair_two)
	rt.Register("C02_repair_arbitrary", VerifHarness_C02_repair_arbitrary)
	rt.Register("C02_garbage_parity", VerifHarness_C02_garbage_parity)
	rt.Register("C16_search_arbitrary", VerifHarness_C16_search_arbitrary)
	rt.Register("C14_step", VerifHarness_C14_step)
	rt.Register("C20_par2_classify", VerifHarness_C20_par2_classify)
	rt.Register("C03_verify_sym", VerifHarness_C03_verify_sym)
	rt.Register("C01_repair_sym", VerifHarness_C01_repair_sym)
	rt.Register("C16_search_sym", VerifHarness_C16_search_sym)
	rt.Register("C16_two_files", VerifHarness_C16_two_files)
	rt.Register("C14_many_identical", VerifHarness_C14_many_identical)
	rt.Register("C16_big_copy", VerifHarness_C16_big_copy)
	rt.Register("C02_big_garbage_parity", VerifHarness_C02_big_garbage_parity)
}

const (
	dmgIntact = iota
	dmgMissing
	dmgOverwriteSlice
	dmgInsertFront
	dmgTruncate
	dmgAppend
	dmgArbitrary
	dmgKinds
)

// symBudget bounds how many bytes of a damage are solver variables (the rest
// are the fixed filler 0xEE); harness variants set it.
var symBudget = 1

func dmgBytes(tag string, n int) []byte {
	k := n
	if k > symBudget {
		k = symBudget
	}
	b := rt.Bytes(tag, k)
	for len(b) < n {
		b = append(b, 0xEE)
	}
	return b
}

// damage changes file i of the scenario and returns a description.
func damage(s *scenario, i, kind int, tag string) {
	p := s.paths[i]
	x := s.orig[i]
	switch kind {
	case dmgIntact:
	case dmgMissing:
		s.fs.remove(p)
	case dmgOverwriteSlice:
		n := (len(x) + scnSlice - 1) / scnSlice
		k := rt.Choice(tag+"slice", n)
		y := append([]byte(nil), x...)
		nb := dmgBytes(tag+"ow", scnSlice)
		for j := 0; j < scnSlice && k*scnSlice+j < len(y); j++ {
			y[k*scnSlice+j] = nb[j]
		}
		s.fs.put(p, y)
	case dmgInsertFront:
		m := 1 + rt.Choice(tag+"ins", scnSlice)
		y := append(dmgBytes(tag+"in", m), x...)
		s.fs.put(p, y)
	case dmgTruncate:
		m := rt.Choice(tag+"keep", len(x))
		s.fs.put(p, append([]byte(nil), x[:m]...))
	case dmgAppend:
		m := 1 + rt.Choice(tag+"app", 2)
		s.fs.put(p, append(append([]byte(nil), x...), dmgBytes(tag+"ap", m)...))
	case dmgArbitrary:
		m := rt.Choice(tag+"len", len(x)+2)
		s.fs.put(p, dmgBytes(tag+"y", m))
	}
}

func slicesOf(x []byte) [][]byte {
	var out [][]byte
	for o := 0; o < len(x); o += scnSlice {
		end := o + scnSlice
		if end > len(x) {
			end = len(x)
		}
		out = append(out, padTo(x[o:end], scnSlice))
	}
	return out
}

// occurs reports whether the (padded) slice occurs in y at some offset, zero
// padding allowed only at the end of y.
func occurs(y, slice []byte) bool {
	found := false
	for j := 0; j < len(y); j++ {
		end := j + scnSlice
		if end > len(y) {
			end = len(y)
		}
		if bytesEqual(padTo(y[j:end], scnSlice), slice) {
			found = true
		}
	}
	return found
}

func b2u(b bool) uint8 {
	if b {
		return 1
	}
	return 0
}

// safelyFindable counts the protected slices that occur in y (zero padding
// only at end of file) at an offset where no occurrence of any slice at a
// different offset overlaps them: exactly the slices the property promises
// will be found (an overlapping second occurrence may legitimately be consumed
// by the scan first).  Branch-free: everything is computed as 0/1 bytes.
func safelyFindable(y []byte, slices [][]byte) uint8 {
	n := len(y)
	// hit[i] = 1 if some slice occurs at offset i; occ[k][i] for slice k
	occ := make([][]uint8, len(slices))
	hit := make([]uint8, n)
	for k, sl := range slices {
		occ[k] = make([]uint8, n)
		for i := 0; i < n; i++ {
			end := i + scnSlice
			if end > n {
				end = n
			}
			occ[k][i] = b2u(bytesEqual(padTo(y[i:end], scnSlice), sl))
			hit[i] |= occ[k][i]
		}
	}
	var count uint8
	for k := range slices {
		var found uint8
		for j := 0; j < n; j++ {
			alone := occ[k][j]
			for i := j - scnSlice + 1; i < j+scnSlice; i++ {
				if i >= 0 && i < n && i != j {
					alone &= 1 ^ hit[i]
				}
			}
			found |= alone
		}
		count += found
	}
	return count
}

// safelyFindableAny is safelyFindable over several surviving files: a slice
// counts when it stands alone (as above) in at least one of them, under
// whatever name that content now lives.
func safelyFindableAny(files [][]byte, slices [][]byte) uint8 {
	found := make([]uint8, len(slices))
	for _, y := range files {
		n := len(y)
		occ := make([][]uint8, len(slices))
		hit := make([]uint8, n)
		for k, sl := range slices {
			occ[k] = make([]uint8, n)
			for i := 0; i < n; i++ {
				end := i + scnSlice
				if end > n {
					end = n
				}
				occ[k][i] = b2u(bytesEqual(padTo(y[i:end], scnSlice), sl))
				hit[i] |= occ[k][i]
			}
		}
		for k := range slices {
			for j := 0; j < n; j++ {
				alone := occ[k][j]
				for i := j - scnSlice + 1; i < j+scnSlice; i++ {
					if i >= 0 && i < n && i != j {
						alone &= 1 ^ hit[i]
					}
				}
				found[k] |= alone
			}
		}
	}
	var count uint8
	for _, f := range found {
		count += f
	}
	return count
}

func currentFiles(s *scenario) [][]byte {
	var out [][]byte
	for _, p := range s.paths {
		if d, ok := s.fs.files[p]; ok {
			out = append(out, d)
		}
	}
	return out
}

func allIntact(s *scenario) bool {
	ok := true
	for i, p := range s.paths {
		d, present := s.fs.files[p]
		if !present || !bytesEqual(d, s.orig[i]) {
			ok = false
		}
	}
	return ok
}

// checkVerify runs the real verify and asserts truthfulness of its result.
func checkVerify(s *scenario, blocksPresent int) (VerifyResult, error) {
	w0 := len(s.fs.writes)
	res, err := verify(s.fs, scnIndex, VerifyOptions{NumGoroutines: 1})
	rt.Assert(len(s.fs.writes) == w0, "Verify writes nothing")
	if err != nil {
		return res, err
	}
	c := res.ShardCounts
	total := 0
	absent := 0
	cur := currentFiles(s)
	for _, x := range s.orig {
		for _, sl := range slicesOf(x) {
			total++
			here := false
			for _, y := range cur {
				if occurs(y, sl) {
					here = true
				}
			}
			if !here {
				absent++
			}
		}
	}
	rt.Assert(c.UsableDataShardCount+c.UnusableDataShardCount == total, "usable + unusable == number of protected slices")
	rt.Assert(c.UnusableDataShardCount >= absent, "a slice whose content is absent from every surviving file is not counted usable")
	intactSlices := 0
	for i, p := range s.paths {
		if d, ok := s.fs.files[p]; ok && bytesEqual(d, s.orig[i]) {
			intactSlices += len(slicesOf(s.orig[i]))
		}
	}
	rt.Assert(c.UsableDataShardCount >= intactSlices, "every slice of an undamaged file is counted usable")
	var allSlices [][]byte
	for _, x := range s.orig {
		allSlices = append(allSlices, slicesOf(x)...)
	}
	rt.Assert(c.UsableDataShardCount >= int(safelyFindableAny(cur, allSlices)), "every slice that survives at a non-overlapped offset in some protected file is counted usable")
	rt.Assert(c.UsableParityShardCount == blocksPresent, "usable recovery blocks == intact recovery blocks beside the index")
	rt.Assert(c.RepairPossible() == (c.UnusableDataShardCount <= c.UsableParityShardCount), "repair possible iff unusable slices <= usable recovery blocks")
	if !c.RepairNeeded() {
		rt.Assert(allIntact(s), "no repair needed only if every protected file is present and byte-identical")
	}
	return res, nil
}

// checkRepair runs the real repair and asserts C02's write discipline and
// "nil error means exact restoration".
func checkRepair(s *scenario, doubleCheck bool, goroutines int) (RepairResult, error) {
	return checkRepairMode(s, doubleCheck, goroutines, true)
}

// consistent=false is for deliberately inconsistent archives (C19): a file may
// then be rewritten with its own bytes, and "protected" is whatever the archive
// says it is, so only the write discipline is asserted.
func checkRepairMode(s *scenario, doubleCheck bool, goroutines int, consistent bool) (RepairResult, error) {
	before := map[string][]byte{}
	for _, p := range s.fs.order {
		before[p] = s.fs.files[p]
	}
	wasIntact := make([]bool, len(s.paths))
	for i, p := range s.paths {
		d, ok := s.fs.files[p]
		wasIntact[i] = ok && bytesEqual(d, s.orig[i])
	}
	w0 := len(s.fs.writes)
	res, err := repair(s.fs, scnIndex, RepairOptions{DoubleCheck: doubleCheck, NumGoroutines: goroutines})
	for _, w := range s.fs.writes[w0:] {
		idx := -1
		for i, p := range s.paths {
			if p == w.path {
				idx = i
			}
		}
		rt.Assert(idx >= 0, "Repair writes only protected files")
		if idx >= 0 {
			rt.Assert(bytesEqual(w.data, s.orig[idx]), "every file Repair writes has exactly the protected bytes")
			if consistent {
				rt.Assert(!wasIntact[idx], "Repair does not rewrite a file that was intact")
			}
			listed := false
			for _, rp := range res.RepairedPaths {
				if rp == w.path {
					listed = true
				}
			}
			rt.Assert(listed, "every written file is listed in RepairedPaths")
		}
	}
	rt.Assert(len(res.RepairedPaths) == len(s.fs.writes)-w0, "RepairedPaths lists exactly the files written")
	for p, d := range before {
		isProt := false
		for _, q := range s.paths {
			if p == q {
				isProt = true
			}
		}
		if !isProt {
			cur, ok := s.fs.files[p]
			rt.Assert(ok && bytesEqual(cur, d), "recovery files and bystanders are unchanged by Repair")
		}
	}
	if err == nil && consistent {
		rt.Assert(allIntact(s), "Repair returned nil: every protected file is byte-identical to its original")
	}
	return res, err
}

func oneFileLens() []int { return []int{[]int{4, 5, 8}[rt.Choice("len", 3)]} }

func contentChoice() int { return 1 + rt.Choice("content", 2) }

func VerifHarness_C03_verify_one() {
	s := buildArchiveMode(oneFileLens(), 1, 1, contentChoice())
	s.fs.put(scnDir+"/bystander", []byte("x"))
	damage(s, 0, rt.Choice("kind", dmgKinds-1), "a")
	blocks := 1
	if rt.Bool("dropVolume") {
		s.fs.remove(scnDir + "/s.vol00+01.par2")
		blocks = 0
	}
	_, err := checkVerify(s, blocks)
	rt.Assert(err == nil, "Verify of a set with a valid index and valid volumes returns a result")
}

// arbitrary current content of any length up to original+1
func VerifHarness_C03_verify_arbitrary() {
	s := buildArchiveMode([]int{[]int{4, 5}[rt.Choice("len", 2)]}, 1, 1, contentChoice())
	damage(s, 0, dmgArbitrary, "a")
	_, err := checkVerify(s, 1)
	rt.Assert(err == nil, "Verify returns a result")
}

func VerifHarness_C03_verify_two() {
	s := buildArchiveMode([]int{4, 5}, 2, 1, contentChoice())
	k0 := rt.Choice("kind0", dmgKinds-1)
	k1 := rt.Choice("kind1", 3)
	if rt.Bool("swap") {
		// files swapped among themselves
		a, b := s.fs.files[s.paths[0]], s.fs.files[s.paths[1]]
		s.fs.put(s.paths[0], b)
		s.fs.put(s.paths[1], a)
	} else {
		damage(s, 0, k0, "a")
		damage(s, 1, k1, "b")
	}
	_, err := checkVerify(s, 2)
	rt.Assert(err == nil, "Verify returns a result")
}

// C16, second clause: a file's content under another protected file's name.
// Only the findability oracle is asserted here (the clean-verdict clause of C03
// has a recorded finding of its own).
func VerifHarness_C16_two_files() {
	s := buildArchiveMode([]int{4, 5}, 2, 1, contentChoice())
	if rt.Bool("swap") {
		a, b := s.fs.files[s.paths[0]], s.fs.files[s.paths[1]]
		s.fs.put(s.paths[0], b)
		s.fs.put(s.paths[1], a)
	} else {
		damage(s, 0, rt.Choice("kind0", dmgKinds-1), "a")
		damage(s, 1, rt.Choice("kind1", 3), "b")
	}
	res, err := verify(s.fs, scnIndex, VerifyOptions{NumGoroutines: 1})
	rt.Assert(err == nil, "Verify returns a result")
	var allSlices [][]byte
	for _, x := range s.orig {
		allSlices = append(allSlices, slicesOf(x)...)
	}
	rt.Assert(res.ShardCounts.UsableDataShardCount >= int(safelyFindableAny(currentFiles(s), allSlices)), "every slice that survives at a non-overlapped offset in some protected file is counted usable")
}

// Two large files with the same content (slice size 16384), one of them
// lost or shifted: every slice of the lost copy is found in the surviving one
// and costs no recovery block.
func VerifHarness_C16_big_copy() {
	useFileIDLessSpec()
	n := []int{65535, 65536, 65537, 131072}[rt.Choice("size", 4)]
	data := make([]byte, n)
	for i := range data {
		data[i] = byte(i*13 + i/255 + 3)
	}
	s := &scenario{fs: newSymFS(), parity: 1}
	s.orig = [][]byte{data, data}
	s.paths = []string{fileName(0), fileName(1)}
	s.fs.put(fileName(0), append([]byte(nil), data...))
	s.fs.put(fileName(1), append([]byte(nil), data...))
	err := create(s.fs, scnIndex, s.paths, CreateOptions{SliceByteCount: 16384, NumParityShards: 1, NumGoroutines: 1})
	rt.Assert(err == nil, "Create succeeds on the scenario")
	lost := rt.Choice("lost", 2)
	s.fs.remove(s.paths[lost])
	slices := 2 * ((n + 16383) / 16384)
	res, verr := verify(s.fs, scnIndex, VerifyOptions{NumGoroutines: 1})
	rt.Assert(verr == nil, "Verify returns a result")
	rt.Assert(res.ShardCounts.UsableDataShardCount == slices && res.ShardCounts.UnusableDataShardCount == 0, "every slice of the lost copy is found in the surviving copy")
	_, rerr := checkRepair(s, false, 1)
	rt.Assert(rerr == nil, "Repair restores the lost copy without needing more than the one block")
}

// expectedLost is the number of protected slices a structured damage destroys
// (an upper bound on what must be reconstructed); -1 = no claim.
func expectedLost(x []byte, kind int) int {
	n := (len(x) + scnSlice - 1) / scnSlice
	switch kind {
	case dmgIntact, dmgInsertFront:
		return 0
	case dmgAppend:
		if len(x)%scnSlice == 0 {
			return 0
		}
		return 1
	case dmgMissing:
		return n
	case dmgOverwriteSlice:
		return 1
	}
	return -1
}

func VerifHarness_C01_repair_one() {
	s := buildArchiveMode(oneFileLens(), 2, 1+rt.Choice("g", 2), contentChoice())
	kind := rt.Choice("kind", dmgKinds)
	damage(s, 0, kind, "a")
	blocks := 2
	// loss of any subset of the recovery files (block 0 in vol00+01, block 1 in vol01+01)
	if rt.Bool("dropVol0") {
		s.fs.remove(scnDir + "/s.vol00+01.par2")
		blocks--
	}
	if rt.Bool("dropVol1") {
		s.fs.remove(scnDir + "/s.vol01+01.par2")
		blocks--
	}
	_, err := checkRepair(s, rt.Bool("doubleCheck"), 1)
	if lost := expectedLost(s.orig[0], kind); lost >= 0 && lost <= blocks {
		rt.Assert(err == nil, "damage within recovery capacity: Repair succeeds")
		rt.Reach("repaired")
	}
	if err == nil {
		v, verr := verify(s.fs, scnIndex, VerifyOptions{NumGoroutines: 1})
		rt.Assert(verr == nil && !v.ShardCounts.RepairNeeded(), "after a successful Repair, Verify is clean")
	}
}

func VerifHarness_C01_repair_two() {
	s := buildArchiveMode([]int{4, 5}, 2, 1, contentChoice())
	k0 := rt.Choice("kind0", 4)
	k1 := rt.Choice("kind1", 2)
	swap := rt.Bool("swap")
	if swap {
		a, b := s.fs.files[s.paths[0]], s.fs.files[s.paths[1]]
		s.fs.put(s.paths[0], b)
		s.fs.put(s.paths[1], a)
	} else {
		damage(s, 0, k0, "a")
		damage(s, 1, k1, "b")
	}
	_, err := checkRepair(s, false, 1)
	lost := 0
	if !swap {
		lost = expectedLost(s.orig[0], k0) + expectedLost(s.orig[1], k1)
	}
	if lost <= 2 {
		rt.Assert(err == nil, "damage within recovery capacity: Repair succeeds")
		rt.Reach("repaired")
	}
}

func VerifHarness_C02_repair_arbitrary() {
	s := buildArchiveMode(oneFileLens(), 1, 1, contentChoice())
	s.fs.put(scnDir+"/bystander", []byte("x"))
	damage(s, 0, dmgArbitrary, "a")
	checkRepair(s, rt.Bool("doubleCheck"), 1)
}

// replaceRecoveryData overwrites the recovery block of a one-block volume file
// with arbitrary bytes and re-computes the packet hash, so that only the
// final file-hash check stands between garbage and the disk.
func replaceRecoveryData(data []byte, tag string) []byte {
	out := append([]byte(nil), data...)
	off := 0
	for off+64 <= len(out) {
		n := int(le64(out[off+8 : off+16]))
		if refType(out[off+48:off+64]) == "PAR 2.0\x00RecvSlic" {
			nb := rt.Bytes(tag, n-64-4)
			copy(out[off+68:off+n], nb)
			h := md5.Sum(out[off+32 : off+n])
			copy(out[off+16:off+32], h[:])
		}
		off += n
	}
	return out
}

// The same beyond the 16k hash: a 16388-byte file (slice size 8192) that lost
// its last slice, and a recovery block whose first byte was altered (packet
// hash recomputed): what Repair would reconstruct differs from the original
// only at offset 16384.
func VerifHarness_C02_big_garbage_parity() {
	useFileIDLessSpec()
	const n = 16388
	data := make([]byte, n)
	for i := range data {
		data[i] = byte(i*7 + i/251 + 1)
	}
	s := &scenario{fs: newSymFS(), parity: 1}
	s.orig = [][]byte{data}
	s.paths = []string{fileName(0)}
	s.fs.put(fileName(0), append([]byte(nil), data...))
	err := create(s.fs, scnIndex, s.paths, CreateOptions{SliceByteCount: 8192, NumParityShards: 1, NumGoroutines: 1})
	rt.Assert(err == nil, "Create succeeds on the scenario")
	vol := scnDir + "/s.vol00+01.par2"
	out := append([]byte(nil), s.fs.files[vol]...)
	for off := 0; off+64 <= len(out); {
		m := int(le64(out[off+8 : off+16]))
		if refType(out[off+48:off+64]) == "PAR 2.0\x00RecvSlic" {
			flip := rt.Byte("flip")
			rt.Assume(flip != 0)
			out[off+68] ^= flip
			h := md5.Sum(out[off+32 : off+m])
			copy(out[off+16:off+32], h[:])
		}
		off += m
	}
	s.fs.put(vol, out)
	s.fs.put(fileName(0), append([]byte(nil), data[:16384]...))
	_, rerr := checkRepair(s, rt.Bool("doubleCheck"), 1)
	rt.Assert(rerr != nil, "the altered block cannot restore the file: Repair reports an error")
}

func VerifHarness_C02_garbage_parity() {
	s := buildArchiveMode(oneFileLens(), 1, 1, contentChoice())
	vol := scnDir + "/s.vol00+01.par2"
	s.fs.put(vol, replaceRecoveryData(s.fs.files[vol], "junk"))
	damage(s, 0, rt.Choice("kind", 3), "a")
	checkRepair(s, rt.Bool("doubleCheck"), 1)
}

// C16 (b): arbitrary current content; every original slice that still occurs
// (and is not overlapped by an earlier hit of the greedy scan) is found.
func VerifHarness_C16_search_arbitrary() {
	s := buildArchiveMode(oneFileLens(), 1, 1, contentChoice())
	kind := []int{dmgInsertFront, dmgTruncate, dmgAppend, dmgOverwriteSlice}[rt.Choice("kind", 4)]
	damage(s, 0, kind, "a")
	res, err := verify(s.fs, scnIndex, VerifyOptions{NumGoroutines: 1})
	rt.Assert(err == nil, "Verify returns a result")
	n := len(slicesOf(s.orig[0]))
	switch kind {
	case dmgInsertFront:
		rt.Assert(res.ShardCounts.UsableDataShardCount == n, "bytes inserted before the content: every slice is still found (shifted)")
	case dmgAppend:
		// a short last slice no longer has its zero padding at end of file
		full := len(s.orig[0]) / scnSlice
		rt.Assert(res.ShardCounts.UsableDataShardCount >= full, "bytes appended: every full slice is still found")
	}
	if cur, ok := s.fs.files[s.paths[0]]; ok {
		rt.Assert(res.ShardCounts.UsableDataShardCount >= int(safelyFindable(cur, slicesOf(s.orig[0]))), "every slice that survives at a non-overlapped offset is counted usable")
	}
	switch kind {
	case dmgOverwriteSlice:
		rt.Assert(res.ShardCounts.UsableDataShardCount >= n-1, "one slice overwritten: all other slices are found")
	case dmgTruncate:
		keep := len(s.fs.files[s.paths[0]]) / scnSlice
		rt.Assert(res.ShardCounts.UsableDataShardCount >= keep, "truncation: every slice wholly before the cut is found")
	}
}

// C14: one step from an arbitrary state of the protected file; a successful
// Repair leaves a clean state in which a further Repair writes nothing; a
// failed Repair leaves every file with its previous or its original content.
func VerifHarness_C14_step() {
	s := buildArchiveMode(oneFileLens(), 1, 1, contentChoice())
	damage(s, 0, rt.Choice("kind", dmgKinds), "a")
	if rt.Bool("dropVolume") {
		s.fs.remove(scnDir + "/s.vol00+01.par2")
	}
	prev, had := s.fs.files[s.paths[0]]
	_, err := checkRepair(s, false, 1)
	cur, has := s.fs.files[s.paths[0]]
	if err != nil {
		same := had == has && (!has || bytesEqual(prev, cur))
		restored := has && bytesEqual(cur, s.orig[0])
		rt.Assert(same || restored, "failed Repair: the file keeps its previous content or regains its original")
		rt.Reach("failed")
	} else {
		w1 := len(s.fs.writes)
		v, verr := verify(s.fs, scnIndex, VerifyOptions{NumGoroutines: 1})
		rt.Assert(verr == nil && !v.ShardCounts.RepairNeeded(), "after a successful Repair, Verify is clean")
		_, err2 := repair(s.fs, scnIndex, RepairOptions{NumGoroutines: 1})
		rt.Assert(len(s.fs.writes) == w1, "a further Repair rewrites nothing")
		_ = err2
		rt.Reach("succeeded")
	}
}

// More than 256 identical slices (a sparse-file-like run): the set verifies
// clean, Repair of the intact set writes nothing, and a lost second file is
// restored while the intact one is left alone.
func VerifHarness_C14_many_identical() {
	n := []int{255, 256, 257, 300}[rt.Choice("slices", 4)]
	s := buildArchiveMode([]int{n * scnSlice, 3}, 1, 1, contentDuplicate)
	if rt.Bool("loseSecond") {
		s.fs.remove(s.paths[1])
	}
	res, err := checkRepair(s, false, 1)
	rt.Assert(err == nil, "damage within recovery capacity: Repair succeeds")
	for _, p := range res.RepairedPaths {
		rt.Assert(p != s.paths[0], "Repair does not rewrite a file that was intact")
	}
	w1 := len(s.fs.writes)
	v, verr := verify(s.fs, scnIndex, VerifyOptions{NumGoroutines: 1})
	rt.Assert(verr == nil && !v.ShardCounts.RepairNeeded(), "after a successful Repair, Verify is clean")
	_, _ = repair(s.fs, scnIndex, RepairOptions{NumGoroutines: 1})
	rt.Assert(len(s.fs.writes) == w1, "a further Repair rewrites nothing")
}

// C20, library side: a set that needs repair and cannot be repaired makes
// Repair return an error that the CLI's classifier recognises.
func VerifHarness_C20_par2_classify() {
	s := buildArchiveMode([]int{5}, 1, 1, contentDistinct)
	s.fs.remove(s.paths[0])
	if rt.Bool("dropVolume") {
		s.fs.remove(scnDir + "/s.vol00+01.par2")
	}
	_, err := repair(s.fs, scnIndex, RepairOptions{NumGoroutines: 1})
	rt.Assert(err != nil, "two slices lost, at most one block: Repair fails")
	rt.Assert(RepairErrorMeansRepairNecessaryButNotPossible(err), "the error is classified as repair necessary but not possible")
}

// ---- thorough tier: fully symbolic file contents (every byte a solver variable) ----

func symLens() []int { return []int{[]int{4, 5}[rt.Choice("len", 2)]} }

func VerifHarness_C03_verify_sym() {
	s := buildArchiveMode(symLens(), 1, 1, contentSymbolic)
	damage(s, 0, rt.Choice("kind", dmgKinds-1), "a")
	_, err := checkVerify(s, 1)
	rt.Assert(err == nil, "Verify returns a result")
}

func VerifHarness_C01_repair_sym() {
	s := buildArchiveMode(symLens(), 1, 1, contentSymbolic)
	kind := rt.Choice("kind", dmgKinds-1)
	damage(s, 0, kind, "a")
	_, err := checkRepair(s, false, 1)
	if lost := expectedLost(s.orig[0], kind); lost >= 0 && lost <= 1 {
		rt.Assert(err == nil, "damage within recovery capacity: Repair succeeds")
		rt.Reach("repaired")
	}
}

func VerifHarness_C16_search_sym() {
	s := buildArchiveMode(symLens(), 1, 1, contentSymbolic)
	kind := []int{dmgInsertFront, dmgTruncate, dmgAppend}[rt.Choice("kind", 3)]
	damage(s, 0, kind, "a")
	res, err := verify(s.fs, scnIndex, VerifyOptions{NumGoroutines: 1})
	rt.Assert(err == nil, "Verify returns a result")
	cur := s.fs.files[s.paths[0]]
	rt.Assert(res.ShardCounts.UsableDataShardCount >= int(safelyFindable(cur, slicesOf(s.orig[0]))), "every slice that survives at a non-overlapped offset is counted usable")
}
