#!/bin/sh
# Runs every registered check (tier $1, default quick) on /repo and rewrites the evidence files.
cd "$(dirname "$0")/.."
tier=${1:-quick}
rc=0
for p in C01 C02 C03 C04 C05 C06 C07 C08 C09 C10 C11 C12 C13 C14 C15 C16 C17 C18 C19 C20; do
  python3 run/check.py $p --tier $tier > /tmp/verif-all-$p.log 2>&1
  r=$?
  echo "$p rc=$r $(tail -1 /tmp/verif-all-$p.log)"
  [ $r -ne 0 ] && rc=1
done
exit $rc
