#!/bin/sh
# Applies one seeded change to /repo, runs one property's quick check against it
# (optionally only the harnesses matching a regex), and restores /repo.
# usage: run/seedrun.sh <seed-dir-name> <property> [harness-regex]
# Evidence and replay files written by such a run come from a changed tree:
# restore them afterwards (git checkout evidence replays; git clean -fd replays).
cd "$(dirname "$0")/.."
git -C /repo status --short | grep -q . && { echo "/repo has uncommitted changes"; exit 9; }
git -C /repo apply "$PWD/seeded/$1/patch.diff" || exit 8
log=$(mktemp)
if [ -n "$3" ]; then timeout 1500 python3 run/check.py "$2" --tier quick --only "$3" > "$log" 2>&1; else timeout 1500 python3 run/check.py "$2" --tier quick > "$log" 2>&1; fi
echo "$1 $2 rc=$?"
git -C /repo checkout -- .
grep -E "^VIOLATION|INCONCLUSIVE" "$log" | cut -c1-260 | head -6
tail -1 "$log" | cut -c1-200
rm -f "$log"
