#!/usr/bin/env python3
"""Regenerates MANIFEST.json from run/props.py (claimed) and the NA table below."""
import json, os, sys
sys.path.insert(0, os.path.dirname(os.path.abspath(__file__)))
import props
V = os.path.dirname(os.path.dirname(os.path.abspath(__file__)))
allp = [json.loads(l) for l in open(os.path.join(V, "properties.jsonl"))]
checks = []
for p in allp:
    pid = p["id"]
    if pid not in props.PROPS:
        continue
    sp = props.PROPS[pid]
    checks.append({
        "property_id": pid,
        "quick_cmd": "python3 run/check.py %s --tier quick" % pid,
        "thorough_cmd": "python3 run/check.py %s --tier thorough" % pid,
        "evidence_file": "evidence/%s.json" % pid,
        "replay_cmd_template": "python3 run/check.py %s --replay {path}" % pid,
        "engine": sp.get("engine", "gosym"),
        "level_claimed": {"category": "model_checking",
                          "text": sp.get("level_text", "bounded symbolic execution of the real code (go/ssa, and the assembly where relevant) with every obligation decided by an SMT solver or by the GF(2) normal form; bounds are listed per harness in the evidence; nothing is claimed outside them"),
                          "design_ref": "DESIGN.md section 4 " + pid},
        "level_note": sp.get("level_note", "trusted: go/ssa, the gosym/asmsym executors and term layer, z3; models and contracts listed in the evidence under models_and_summaries_used; " + "; ".join(sp.get("assumptions", []))),
        "technique": sp.get("technique", "symbolic execution of go/ssa to SMT-LIB2 (z3), path forking, loop-invariant cuts, GF(2) normal-form prover"),
    })
na = [{"property_id": p["id"], "reason": props.NOT_APPLICABLE.get(p["id"], "check not built yet (work in progress)")} for p in allp if p["id"] not in props.PROPS]
m = {
    "version": 1,
    "setup_cmd": "cd /verif/engine && GOFLAGS=-mod=mod GOPROXY=off GOSUMDB=off GOTOOLCHAIN=local sh -c 'go build -o bin/gosym ./cmd/gosym && (test ! -d cmd/asmsym || go build -o bin/asmsym ./cmd/asmsym)'",
    "hooks": {"guard": "verif", "enable": "no source hooks: harnesses and the zzverifrt runtime are injected by go/packages overlays (gosym) and `go test -overlay` (native replay)",
              "baseline_off_cmd": "cd /repo && go test -vet=off -count=1 ./...", "source_commits": [], "add_only": True},
    "engines": [
        {"name": "gosym", "path": "engine/cmd/gosym", "serves_properties": sorted(props.PROPS), "kind_free_text": "symbolic interpreter for go/ssa emitting SMT-LIB2 for z3 (path forking by re-execution, loop-invariant cuts, summaries, GF(2) normal-form prover)"},
        {"name": "asmsym", "path": "engine/cmd/asmsym", "serves_properties": ["C09"], "kind_free_text": "symbolic executor for the Plan 9 amd64 subset used by gf2p16/slice_amd64.s, front end `go tool asm -debug`"},
    ],
    "checks": checks,
    "not_applicable": na,
    "notes": "see DESIGN.md; exit 2 = inconclusive (never printed together with success)",
}
json.dump(m, open(os.path.join(V, "MANIFEST.json"), "w"), indent=1)
print("claimed:", [c["property_id"] for c in checks], "NA:", [n["property_id"] for n in na])
