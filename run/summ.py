#!/usr/bin/env python3
import json,sys
try:
    o=json.load(sys.stdin)
except Exception as ex:
    print('bad output',ex); sys.exit(1)
for r in o['results']:
    print(r['harness'],'paths',r['paths'],r['path_ends'],'wall',round(r['wall_s'],2),'steps',r['ssa_steps'],'merges',r['merged_diamonds'],'feasq',r['feasibility_queries'],'unkfeas',r['unknown_feasibility'])
    for k,v in r['obligations'].items(): print('  OB',k,v)
    for k,v in r['auto_obligations'].items(): print('  AUTO',k,v)
    for c in (r['counterexamples'] or [])[:3]: print('  CEX',c['label'],c['kind'],{k:v for k,v in list(c['model'].items())[:12]})
    if r['unsupported']: print('  UNSUP',[u[:400] for u in r['unsupported']])
    if r.get('reached'): print('  reached',r['reached'])
    if r.get('notes'): print('  notes',r['notes'])
    if r.get('exit_codes'): print('  exits',r['exit_codes'])
    s=r['solver']; print('  solver q=%d sat=%d unsat=%d unk=%d err=%d %.1fs max=%.1fs'%(s['Queries'],s['Sat'],s['Unsat'],s['Unknown'],s['Errors'],s['Seconds'],s['MaxQueryS']))
