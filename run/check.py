#!/usr/bin/env python3
"""Driver for the solver-based checks.

    python3 run/check.py C08 --tier quick|thorough
    python3 run/check.py C08 --replay replays/C08/<file>.json
    python3 run/check.py C08 --validate            (translator validation only)

Exit 0: every obligation discharged (unsat / normal form) on every explored
path, every vacuity witness present, every counterexample that reproduced
natively is listed in known_findings.json (printed as KNOWN-FINDING).
Exit 1: a reproduced counterexample that is not a known finding
(VIOLATION property=<id> replay=<path>).  Exit 2: inconclusive.
"""
import argparse, concurrent.futures, hashlib, json, os, random, re, shutil, subprocess, sys, tempfile, time

VERIF = os.path.dirname(os.path.dirname(os.path.abspath(__file__)))
REPO = os.environ.get("VERIF_REPO", "/repo")
ENGINE = os.path.join(VERIF, "engine")
GOSYM = os.path.join(ENGINE, "bin", "gosym")
ASMSYM = os.path.join(ENGINE, "bin", "asmsym")
HARNESS = os.path.join(VERIF, "harness")
sys.path.insert(0, os.path.join(VERIF, "run"))
import props  # noqa: E402

GOENV = dict(os.environ, GOFLAGS="-mod=mod", GOPROXY="off", GOSUMDB="off", GOTOOLCHAIN="local", CGO_ENABLED="0")


def sh(cmd, **kw):
    return subprocess.run(cmd, stdout=subprocess.PIPE, stderr=subprocess.STDOUT, text=True, **kw)


def build_engine():
    os.makedirs(os.path.join(ENGINE, "bin"), exist_ok=True)
    srcs = []
    for root, _, files in os.walk(ENGINE):
        if "/bin" in root:
            continue
        for f in files:
            if f.endswith(".go") or f in ("go.mod", "go.sum"):
                srcs.append(os.path.join(root, f))
    newest = max(os.path.getmtime(s) for s in srcs)
    for tool in ("gosym", "asmsym"):
        out = os.path.join(ENGINE, "bin", tool)
        if not os.path.isdir(os.path.join(ENGINE, "cmd", tool)):
            continue
        if os.path.exists(out) and os.path.getmtime(out) >= newest:
            continue
        r = sh(["go", "build", "-o", out, "./cmd/" + tool], cwd=ENGINE, env=GOENV)
        if r.returncode != 0:
            print(r.stdout)
            raise SystemExit("INCONCLUSIVE engine build failed")


def overlay_map(scratch, pkgs_with_tests=()):
    """go build/test overlay: harness files + runtime (+ replay test per package)."""
    rep = {}
    for root, _, files in os.walk(HARNESS):
        for f in files:
            if not f.endswith(".go"):
                continue
            p = os.path.join(root, f)
            rel = os.path.relpath(p, HARNESS)
            if rel.startswith("rt/"):
                dst = os.path.join(REPO, "internal/zzverifrt", rel[3:])
            else:
                dst = os.path.join(REPO, rel)
            rep[dst] = p
    for pkg in pkgs_with_tests:
        pdir = os.path.join(HARNESS, pkg)
        name = None
        for f in sorted(os.listdir(pdir)):
            if f.endswith(".go"):
                m = re.search(r"^package (\w+)", open(os.path.join(pdir, f)).read(), re.M)
                if m:
                    name = m.group(1)
                    break
        t = os.path.join(scratch, "replay_%s_test.go" % pkg.replace("/", "_"))
        with open(t, "w") as fh:
            fh.write(REPLAY_TEST % name)
        rep[os.path.join(REPO, pkg, "zz_verif_replay_test.go")] = t
    ov = os.path.join(scratch, "overlay.json")
    with open(ov, "w") as fh:
        json.dump({"Replace": rep}, fh)
    return ov


REPLAY_TEST = '''package %s

import (
	"encoding/json"
	"fmt"
	"os"
	"runtime"
	"testing"

	rt "github.com/akalin/gopar/internal/zzverifrt"
)

func TestVerifReplay(t *testing.T) {
	h := os.Getenv("VERIF_HARNESS")
	var m0, m1 runtime.MemStats
	runtime.ReadMemStats(&m0)
	fails, af, p := rt.RunRegistered(h)
	runtime.ReadMemStats(&m1)
	out := map[string]interface{}{"harness": h, "assume_failed": af, "fails": fails, "panic": nil, "alloc_bytes": m1.TotalAlloc - m0.TotalAlloc}
	if p != nil {
		out["panic"] = fmt.Sprint(p)
	}
	b, _ := json.Marshal(out)
	fmt.Printf("REPLAY-RESULT %%s\\n", b)
}

// TestVerifWitness runs several (harness, input) pairs given as a JSON list.
func TestVerifWitness(t *testing.T) {
	var list []struct {
		Harness string            `json:"harness"`
		Model   map[string]uint64 `json:"model"`
	}
	b, err := os.ReadFile(os.Getenv("VERIF_WITNESSES"))
	if err != nil {
		t.Fatal(err)
	}
	if err := json.Unmarshal(b, &list); err != nil {
		t.Fatal(err)
	}
	for i, w := range list {
		rt.SetModel(w.Model)
		fails, af, p := rt.RunRegistered(w.Harness)
		out := map[string]interface{}{"i": i, "harness": w.Harness, "assume_failed": af, "fails": fails, "panic": nil}
		if p != nil {
			out["panic"] = fmt.Sprint(p)
		}
		ob, _ := json.Marshal(out)
		fmt.Printf("WITNESS-RESULT %%s\\n", ob)
	}
}
'''


def dump_tables(scratch):
    """Run the real gf2p16 init natively and dump logTable / expTable."""
    out = os.path.join(scratch, "tables.bin")
    dump_go = os.path.join(scratch, "dump_test.go")
    with open(dump_go, "w") as fh:
        fh.write('''package gf2p16

import (
	"encoding/binary"
	"os"
	"testing"
)

func TestVerifDumpTables(t *testing.T) {
	f, err := os.Create(os.Getenv("VERIF_TABLES"))
	if err != nil {
		t.Fatal(err)
	}
	defer f.Close()
	binary.Write(f, binary.LittleEndian, logTable[:])
	binary.Write(f, binary.LittleEndian, expTable[:])
}
''')
    ov = os.path.join(scratch, "dump_overlay.json")
    with open(ov, "w") as fh:
        json.dump({"Replace": {os.path.join(REPO, "gf2p16", "zz_verif_dump_test.go"): dump_go}}, fh)
    r = sh(["go", "test", "-vet=off", "-count=1", "-overlay", ov, "-run", "TestVerifDumpTables", "./gf2p16"],
           cwd=REPO, env=dict(GOENV, VERIF_TABLES=out), timeout=600)
    if r.returncode != 0 or not os.path.exists(out):
        print(r.stdout)
        return None
    return out


def run_job(job, scratch, tables, timeout_s):
    name = job["harness"]
    out = os.path.join(scratch, name + job.get("tag", "") + ".json")
    cmd = [GOSYM, "-repo", REPO, "-pkg", "./" + job["pkg"], "-harness", HARNESS, "-func", "VerifHarness_" + name, "-out", out]
    if tables:
        cmd += ["-tables", tables]
    cmd += job.get("args", [])
    t0 = time.time()
    try:
        r = sh(cmd, timeout=timeout_s, cwd=REPO, env=GOENV)
        log = r.stdout
        rc = r.returncode
    except subprocess.TimeoutExpired as ex:
        log = "TIMEOUT after %ds\n%s" % (timeout_s, ex.stdout or "")
        rc = -1
    res = None
    if rc == 0 and os.path.exists(out):
        res = json.load(open(out))
    return dict(job=job, rc=rc, log=log[-4000:], res=res, wall=time.time() - t0)


def race_overlay(ov, scratch):
    """The race detector does not see stores made by assembly.  For -race replays the
    bulk kernels' Go entry points (regenerated from /repo's current slice_amd64.go)
    announce their read and write ranges to it; nothing else changes."""
    src_path = os.path.join(REPO, "gf2p16", "slice_amd64.go")
    try:
        src = open(src_path).read()
    except OSError:
        return ov
    pat = re.compile(r"^(func (?:mulByteSliceLE|mulAndAddByteSliceLE)\(c T, in, out \[\]byte, useSSSE3 bool\) \{)$", re.M)
    if not pat.search(src) or "import (\n" not in src:
        return ov
    src = pat.sub(lambda m: m.group(1) + "\n\tverifRaceTouch(in, out)", src)
    src = src.replace("import (\n", "import (\n\t\"runtime\"\n", 1)
    src += ("\nfunc verifRaceTouch(in, out []byte) {\n\tif len(in) > 0 {\n\t\truntime.RaceReadRange(unsafe.Pointer(&in[0]), len(in))\n\t}\n"
            "\tif len(out) > 0 {\n\t\truntime.RaceWriteRange(unsafe.Pointer(&out[0]), len(out))\n\t}\n}\n")
    dst = os.path.join(scratch, "slice_amd64_race.go")
    open(dst, "w").write(src)
    m = json.load(open(ov))
    m["Replace"][src_path] = dst
    out = os.path.join(scratch, "overlay_race.json")
    json.dump(m, open(out, "w"))
    return out


def native_replay(job, cex_path, scratch, extra_env=None):
    pkg = job["pkg"]
    ov = overlay_map(scratch, [pkg])
    env = dict(GOENV, VERIF_REPLAY=cex_path, VERIF_HARNESS=job["harness"])
    env.update(extra_env or {})
    # jobs that concern concurrent workers are replayed under the race detector: a
    # counterexample of the footprint obligations is a data race natively
    race = ["-race"] if job.get("race") else []
    if race:
        env["CGO_ENABLED"] = "1"
        ov = race_overlay(ov, scratch)
    cmd = ["go", "test", "-vet=off", "-count=1"] + race + ["-overlay", ov, "-run", "TestVerifReplay", "-v", "./" + pkg]
    if not race:
        # an allocation the engine treats as out of memory must not take the machine down:
        # 16 GiB of address space for the test process
        cmd = ["sh", "-c", "ulimit -v 16777216; exec \"$@\"", "sh"] + cmd
    try:
        r = sh(cmd, cwd=REPO, env=env, timeout=900)
    except subprocess.TimeoutExpired:
        return dict(error="native replay timed out")
    m = re.search(r"REPLAY-RESULT (\{.*\})", r.stdout)
    if race and "WARNING: DATA RACE" in r.stdout:
        res = json.loads(m.group(1)) if m else dict(harness=job["harness"], assume_failed=False, fails=[])
        res["fails"] = (res.get("fails") or []) + ["DATA RACE reported by the race detector (native)"]
        res["panic"] = res.get("panic") or "DATA RACE: " + r.stdout[r.stdout.index("WARNING: DATA RACE"):][:400]
        return res
    if not m:
        # a crash outside recover (fatal error, out of memory, ...) also counts as a panic
        if "panic:" in r.stdout or "fatal error:" in r.stdout:
            return dict(harness=job["harness"], assume_failed=False, fails=[], panic=r.stdout[-600:])
        return dict(error="no replay result", output=r.stdout[-1500:])
    return json.loads(m.group(1))


def native_witnesses(pkg, witnesses, scratch):
    """Runs (harness, model) pairs natively in one go test; returns list of results."""
    ov = overlay_map(scratch, [pkg])
    wf = os.path.join(scratch, "witness_%s.json" % pkg.replace("/", "_"))
    json.dump(witnesses, open(wf, "w"))
    try:
        r = sh(["go", "test", "-vet=off", "-count=1", "-overlay", ov, "-run", "TestVerifWitness", "-v", "./" + pkg],
               cwd=REPO, env=dict(GOENV, VERIF_WITNESSES=wf), timeout=900)
    except subprocess.TimeoutExpired:
        return None
    out = [json.loads(m) for m in re.findall(r"WITNESS-RESULT (\{.*\})", r.stdout)]
    if len(out) != len(witnesses):
        return None
    return out


def reproduced(cex, rr):
    if rr.get("error") or rr.get("assume_failed"):
        return False
    if cex["kind"] == "panic":
        if "huge allocation" in cex["label"] and (rr.get("alloc_bytes") or 0) >= 1 << 28:
            return True  # natively the allocation succeeded: measured instead of crashing
        return rr.get("panic") is not None
    if cex["kind"] == "assert" and cex["label"].startswith(("cut-", "asm-pre", "no-overflow", "dispatch:", "table-contract")):
        return bool(rr.get("fails")) or rr.get("panic") is not None
    if cex["kind"] == "assert":
        return any(cex["label"] in f for f in (rr.get("fails") or [])) or rr.get("panic") is not None
    return False


def load_known():
    p = os.path.join(VERIF, "known_findings.json")
    if not os.path.exists(p):
        return []
    return json.load(open(p)).get("findings", [])


def match_known(known, pid, harness, label, rr):
    text = label + " " + str(rr.get("panic") or "")
    for k in known:
        if k.get("status") != "open" or k["property"] != pid:
            continue
        if k.get("harness") and not re.fullmatch(k["harness"], harness):
            continue
        if re.search(k["match"], text):
            return k
    return None


def main():
    ap = argparse.ArgumentParser()
    ap.add_argument("pid")
    ap.add_argument("--tier", default=os.environ.get("VERIF_TIER", "quick"))
    ap.add_argument("--replay")
    ap.add_argument("--only", help="regex on harness names")
    ap.add_argument("--keep", action="store_true")
    ap.add_argument("--jobs", type=int, default=int(os.environ.get("VERIF_JOBS", "12")))
    a = ap.parse_args()
    pid = a.pid
    seed = int(os.environ.get("VERIF_SEED", "0"))
    spec = props.PROPS[pid]
    t0 = time.time()
    build_engine()
    scratch = tempfile.mkdtemp(prefix="verif-%s-" % pid)
    try:
        rc = run(pid, spec, a, seed, scratch, t0)
    finally:
        if not a.keep:
            shutil.rmtree(scratch, ignore_errors=True)
    sys.exit(rc)


def run(pid, spec, a, seed, scratch, t0):
    jobs = [j for j in spec["jobs"] if a.tier == "thorough" or j.get("tier", "quick") == "quick"]
    if a.tier == "quick":
        jobs = [j for j in jobs if j.get("tier", "quick") != "thorough"]
    if a.only:
        jobs = [j for j in jobs if re.search(a.only, j["harness"])]
    known = load_known()

    if a.replay:
        cex = json.load(open(a.replay))
        job = next(j for j in spec["jobs"] if j["harness"] == cex["harness"])
        if job.get("replay") == "c20":
            rr = props.replay_c20(cex, scratch, REPO, GOENV)
        else:
            rr = native_replay(job, os.path.abspath(a.replay), scratch)
        print(json.dumps(rr))
        if reproduced(cex, rr) or (job.get("kind") == "asmsym" and (rr.get("fails") or rr.get("panic"))):
            print("VIOLATION property=%s replay=%s" % (pid, a.replay))
            return 1
        return 0

    tables = None
    if any(j["pkg"] not in ("gf2",) and j.get("kind", "gosym") == "gosym" for j in jobs):
        tables = dump_tables(scratch)
        if tables is None:
            print("INCONCLUSIVE could not dump gf2p16 tables from the real package")
            return 2

    results = []
    gos = [j for j in jobs if j.get("kind", "gosym") == "gosym"]
    others = [j for j in jobs if j.get("kind", "gosym") != "gosym"]
    with concurrent.futures.ThreadPoolExecutor(max_workers=a.jobs) as ex:
        futs = [ex.submit(run_job, j, scratch, tables, j.get("timeout", 900 if a.tier == "quick" else 7200)) for j in gos]
        for j in others:
            futs.append(ex.submit(props.run_special, j, scratch, REPO, VERIF, GOENV, a.tier, seed))
        for f in futs:
            results.append(f.result())

    violations, known_hits, inconclusive = [], [], []
    ob_total = ob_solver = ob_anf = ob_trivial = 0
    paths = steps = queries = merges = 0
    cross = dict(unsat=0, timeout=0, disagree=0)
    solver_s = 0.0
    funcs, hashes, notes, labels, samples, reached, bounds_run = {}, {}, {}, {}, [], {}, []
    replays = 0
    os.makedirs(os.path.join(VERIF, "replays", pid), exist_ok=True)
    for r in results:
        job = r["job"]
        h = job["harness"] + job.get("tag", "")
        bounds_run.append("%s: %s" % (h, job.get("bound", "")))
        if r.get("special") is not None:
            sp = r["special"]
            ob_total += sp.get("obligations", 0)
            ob_solver += sp.get("by_solver", 0)
            queries += sp.get("queries", 0)
            solver_s += sp.get("solver_s", 0.0)
            paths += sp.get("paths", 0)
            steps += sp.get("steps", 0)
            samples += sp.get("samples", [])[:4]
            for k, v in sp.get("functions", {}).items():
                funcs[k] = funcs.get(k, 0) + v
            for lab, n in sp.get("labels", {}).items():
                labels[h + ": " + lab] = n
            for c in sp.get("violations", []):
                kf = match_known(known, pid, h, c["label"], {})
                if kf:
                    known_hits.append((kf, h, c["label"]))
                else:
                    violations.append((h, c["label"], c.get("replay", "")))
            for m in sp.get("inconclusive", []):
                inconclusive.append("%s: %s" % (h, m))
            replays += sp.get("replays", 0)
            continue
        if r["res"] is None:
            inconclusive.append("%s: engine run failed (rc=%s): %s" % (h, r["rc"], r["log"][-600:]))
            continue
        for res in r["res"]["results"]:
            paths += res["paths"]
            steps += res["ssa_steps"]
            merges += res["merged_diamonds"]
            queries += res["solver"]["Queries"]
            cross["unsat"] += res.get("normal_form_crosscheck_unsat", 0)
            cross["timeout"] += res.get("normal_form_crosscheck_timeout", 0)
            cross["disagree"] += res.get("normal_form_crosscheck_disagree", 0)
            solver_s += res["solver"]["Seconds"]
            hashes.update(r["res"].get("source_hashes", {}))
            for k, v in res["functions_encoded"].items():
                funcs[k] = funcs.get(k, 0) + v
            for k, v in (res.get("notes") or {}).items():
                notes[k] = notes.get(k, 0) + v
            for k, v in (res.get("reached") or {}).items():
                reached[h + ":" + k] = v
            samples += [h + " " + s for s in (res.get("sample_obligations") or [])[:2]]
            for group in ("obligations", "auto_obligations"):
                for lab, st in res[group].items():
                    n = st["trivial"] + st["by_normaliser"] + st["by_solver"] + st["violated"] + st["unknown"]
                    ob_total += n
                    ob_solver += st["by_solver"]
                    ob_anf += st["by_normaliser"]
                    ob_trivial += st["trivial"]
                    labels[h + ": " + lab] = dict(st)
                    if st["unknown"]:
                        inconclusive.append("%s: %d solver unknown/timeouts on obligation %r" % (h, st["unknown"], lab))
            if res["unsupported"]:
                inconclusive.append("%s: %s" % (h, "; ".join(u[:300] for u in res["unsupported"])))
            if res["unknown_feasibility"]:
                inconclusive.append("%s: %d feasibility queries unknown" % (h, res["unknown_feasibility"]))
            if res["truncated"]:
                inconclusive.append("%s: exploration truncated" % h)
            if res["path_ends"].get("unwind-bound"):
                inconclusive.append("%s: %d paths abandoned at the unwinding bound on goroutine-spawning loops (more than 24 workers before a join)" % (h, res["path_ends"]["unwind-bound"]))
            if res["path_ends"].get("completed", 0) + res["path_ends"].get("cut", 0) + res["path_ends"].get("exit", 0) == 0 and not res["counterexamples"]:
                inconclusive.append("%s: vacuous - no path reaches the end of the harness" % h)
            for want in job.get("must_reach", []):
                if not (res.get("reached") or {}).get(want):
                    inconclusive.append("%s: vacuity witness %r not reached" % (h, want))
            # counterexamples: replay natively, one per distinct label
            seen = set()
            for i, c in enumerate(res["counterexamples"] or []):
                key = re.sub(r"\d+", "N", c["label"])
                if key in seen:
                    continue
                seen.add(key)
                cpath = os.path.join(VERIF, "replays", pid, "%s-%d.json" % (h, len(seen)))
                json.dump(dict(harness=job["harness"], label=c["label"], kind=c["kind"], model=c["model"], decisions=c["decisions"]), open(cpath, "w"), indent=1)
                if job.get("replay") == "c20":
                    rr = props.replay_c20(dict(model=c["model"], label=c["label"]), scratch, REPO, GOENV)
                else:
                    rr = native_replay(job, cpath, scratch)
                replays += 1
                if reproduced(c, rr):
                    kf = match_known(known, pid, job["harness"], c["label"], rr)
                    if kf:
                        known_hits.append((kf, h, c["label"]))
                    else:
                        violations.append((h, c["label"], os.path.relpath(cpath, VERIF)))
                else:
                    inconclusive.append("%s: counterexample for %r did not reproduce natively (%s)" % (h, c["label"], json.dumps(rr)[:300]))

    # translator validation: inputs that the engine drove to the end of a harness
    # with every assertion discharged must run natively without a failed
    # assumption, assertion or panic
    validated = 0
    if not violations:
        by_pkg = {}
        for r in results:
            if r.get("special") is not None or r["res"] is None:
                continue
            if r["job"].get("no_native"):
                continue
            for res in r["res"]["results"]:
                if res["counterexamples"]:
                    continue
                for w in (res.get("witness_inputs") or [])[:1 if a.tier == "quick" else 2]:
                    by_pkg.setdefault(r["job"]["pkg"], []).append(dict(harness=r["job"]["harness"], model=w))
        for pkg, ws in by_pkg.items():
            outs = native_witnesses(pkg, ws, scratch)
            if outs is None:
                inconclusive.append("translator validation: native witness run failed for package %s" % pkg)
                continue
            for w, o in zip(ws, outs):
                if o.get("assume_failed") or o.get("fails") or o.get("panic"):
                    inconclusive.append("translator validation: engine and native run disagree on %s with input %s: native %s" % (w["harness"], json.dumps(w["model"])[:200], json.dumps(o)[:200]))
                else:
                    validated += 1
    replays += validated

    wall = time.time() - t0
    nontrivial = sum(1 for lab, st in labels.items() if isinstance(st, dict) and (st["by_solver"] + st["by_normaliser"]) > 0) + \
        sum(1 for lab, st in labels.items() if not isinstance(st, dict) and st > 0)
    ev = dict(
        property_id=pid, tier=a.tier if a.tier in ("quick", "thorough") else "quick", seed=seed, level="model_checking",
        coverage=dict(
            states=max(paths, 1), transitions=max(queries + ob_anf, 1), traces_validated_against_impl=replays,
            evaluations=max(ob_total, 1), distinct_nontrivial=nontrivial,
            rule="one evaluation = one proof obligation (assertion, loop-cut VC, bounds/no-panic/no-overflow side condition) on one symbolic path; "
                 "non-trivial = not closed by constant folding, i.e. decided by the SMT solver (unsat) or by the GF(2) normal form; distinct = distinct harness/label pairs. "
                 "states = symbolic paths explored (each covers every input satisfying its path condition); transitions = solver queries + normal-form proofs.",
            samples=samples[:10] or ["(no obligations recorded)"],
            symbolic_paths=paths, ssa_instructions_executed=steps, merged_diamonds=merges,
            solver_queries=queries, solver_seconds=round(solver_s, 2),
            obligations_total=ob_total, obligations_by_solver=ob_solver, obligations_by_normal_form=ob_anf, obligations_trivial=ob_trivial,
            obligations_by_label=labels, functions_encoded=funcs, source_hashes=hashes,
            bounds=bounds_run, vacuity_witnesses=reached, models_and_summaries_used=notes,
            counterexamples_replayed=replays - validated, witness_inputs_validated_natively=validated, normal_form_crosschecks_by_solver=cross,
            known_findings_matched=[dict(id=k["id"], harness=h, label=l) for k, h, l in known_hits],
            inconclusive=inconclusive, exhaustive=False,
            explanation=spec.get("explanation", ""),
        ),
        assumptions=spec.get("assumptions", []) + props.COMMON_ASSUMPTIONS,
        wall_s=round(wall, 2), violations=len(violations),
    )
    os.makedirs(os.path.join(VERIF, "evidence"), exist_ok=True)
    json.dump(ev, open(os.path.join(VERIF, "evidence", pid + ".json"), "w"), indent=1)

    printed = set()
    for k, h, l in known_hits:
        if k["id"] not in printed:
            printed.add(k["id"])
            print("KNOWN-FINDING: property=%s %s [%s]" % (pid, k["what"], k["id"]))
    for h, l, p in violations:
        print("VIOLATION property=%s replay=%s  (%s: %s)" % (pid, p, h, l))
    for m in inconclusive:
        print("INCONCLUSIVE %s" % m)
    print("%s %s: %d harnesses, %d paths, %d obligations (%d solver, %d normal form, %d trivial), %d queries, %.1fs solver, %.1fs wall" %
          (pid, a.tier, len(results), paths, ob_total, ob_solver, ob_anf, ob_trivial, queries, solver_s, wall))
    if violations:
        return 1
    if inconclusive:
        return 2
    return 0


if __name__ == "__main__":
    main()
