"""Per-property job tables for run/check.py."""

COMMON_ASSUMPTIONS = [
    "go/ssa (golang.org/x/tools v0.29.0) faithfully represents the source; the gosym interpreter implements SSA semantics (validated by native replay of counterexamples and by the term-layer fuzz tests)",
    "z3 4.8.12 answers are correct; any '(error' line, unknown or timeout is reported as inconclusive, never as success",
    "the GF(2) normal-form prover only ever answers 'equal' for syntactically identical polynomial normal forms (sound by construction; opaque sub-terms are atoms)",
    "everything outside the bounds listed under coverage.bounds is outside the claim",
]


def J(pkg, harness, tier="quick", bound="", **kw):
    d = dict(pkg=pkg, harness=harness, tier=tier, bound=bound)
    d.update(kw)
    return d


PROPS = {
    "C08": dict(
        explanation="GF(2)[x] and GF(2^16) arithmetic against a carry-less-product specification",
        assumptions=[],
        jobs=[
            J("gf2", "C08_plusminus", bound="all 64-bit operands"),
            J("gf2", "C08_ilog2", bound="all non-zero 64-bit n (64 paths)"),
            J("gf2", "C08_times_cut", bound="all 64-bit operands; loop cut by invariant prod ^ clmul(p,q) = clmul(p0,q0)"),
            J("gf2", "C08_times_small", bound="operands < 2^10, loop fully unrolled (cross-check of the cut)"),
            J("gf2", "C08_div_cut", bound="all 64-bit operands, divisor != 0; loop cut by invariant clmul(q,d) ^ r = p; shift amount case-split 0..63; ilog2 replaced by its verified specification"),
            J("gf2", "C08_div_small", tier="thorough", bound="operands < 2^8, loop fully unrolled"),
        ],
    ),
}


def run_special(job, scratch, repo, verif, goenv, tier, seed):
    raise NotImplementedError(job)
