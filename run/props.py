"""Per-property job tables for run/check.py."""

COMMON_ASSUMPTIONS = [
    "go/ssa (golang.org/x/tools v0.29.0) faithfully represents the source; the gosym interpreter implements SSA semantics (validated by native replay of counterexamples and by the term-layer fuzz tests)",
    "z3 4.8.12 answers are correct; any '(error' line, unknown or timeout is reported as inconclusive, never as success",
    "the GF(2) normal-form prover only ever answers 'equal' for syntactically identical polynomial normal forms (sound by construction; opaque sub-terms are atoms)",
    "everything outside the bounds listed under coverage.bounds is outside the claim",
]


def J(pkg, harness, tier="quick", bound="", **kw):
    d = dict(pkg=pkg, harness=harness, tier=tier, bound=bound)
    d.update(kw)
    return d


PROPS = {
    "C08": dict(
        explanation="GF(2)[x] and GF(2^16) arithmetic against a carry-less-product specification",
        assumptions=[],
        jobs=[
            J("gf2", "C08_plusminus", bound="all 64-bit operands"),
            J("gf2", "C08_ilog2", bound="all non-zero 64-bit n (64 paths)"),
            J("gf2", "C08_times_cut", bound="all 64-bit operands; loop cut by invariant prod ^ clmul(p,q) = clmul(p0,q0)"),
            J("gf2", "C08_times_small", bound="operands < 2^10, loop fully unrolled (cross-check of the cut)"),
            J("gf2", "C08_div_cut", bound="all 64-bit operands, divisor != 0; loop cut by invariant clmul(q,d) ^ r = p; shift amount case-split 0..63; ilog2 replaced by its verified specification"),
            J("gf2", "C08_div_small", tier="thorough", bound="operands < 2^8, loop fully unrolled"),
            J("gf2p16", "C08_T_plusminus", bound="all 2^32 operand pairs"),
            J("gf2p16", "C08_mod_lemmas", bound="all integers 0 <= a,b < 65535 (integer theory)"),
            J("gf2p16", "C08_T_times", bound="all 2^32 operand pairs; tables abstracted to uninterpreted functions constrained by the instances of the homomorphism H and log-inverts-exp at the operands", must_reach=["nonzero"]),
            J("gf2p16", "C08_ops_stateless", race=True, bound="two goroutines calling Times / Div / Inverse / Pow on symbolic operands: no memory cell written by one is touched by the other (the operations keep no package-level state)"),
            J("gf2p16", "C08_pow_twice", bound="two Pow calls in one process, bases 0, 1, 3, 5, 0x405, 0x1235, first exponent 5 / 65541 / 65543 / 0x04000009, second 5 / 7 / 9 / 65543: the second result is the p-fold product"),
            J("gf2p16", "C08_T_inverse", bound="all non-zero elements; same abstraction"),
            J("gf2p16", "C08_T_div", bound="all operand pairs with non-zero divisor; same abstraction", must_reach=["nonzero"]),
            J("gf2p16", "C08_T_pow", bound="all bases, all exponents 0..2^32-1; integer mode with no-overflow obligations on every operation"),
            J("gf2p16", "C08_table_inverse", bound="all 65535 entries of the dumped tables (constant folding)"),
            J("gf2p16", "C08_table_step_0", bound="table entries 0..16383, symbolic position inside each 256-entry chunk"),
            J("gf2p16", "C08_table_step_1", bound="table entries 16384..32767"),
            J("gf2p16", "C08_table_step_2", bound="table entries 32768..49151"),
            J("gf2p16", "C08_table_step_3", bound="table entries 49152..65534"),
            J("gf2", "C08_times_cut", tier="thorough", tag="@z3-new", args=["-solver", "z3-new"], bound="same harness decided by z3 5.1.0 (cross-solver check)"),
            J("gf2", "C08_div_cut", tier="thorough", tag="@z3-new", args=["-solver", "z3-new"], bound="same harness decided by z3 5.1.0"),
            J("gf2p16", "C08_T_times", tier="thorough", tag="@z3-new", args=["-solver", "z3-new"], bound="same harness decided by z3 5.1.0"),
        ],
    ),
    "C09": dict(
        explanation="bulk multiply kernels: table contents, dispatch arithmetic for every length, portable loops, exported entry points; assembly by asmsym",
        assumptions=["the assembly kernels are used through their contract in the gosym harnesses; the contract itself is discharged by the asmsym jobs of this property"],
        jobs=[
            J("gf2p16", "C09_table_mulTable", bound="every outer index i (symbolic), all 256 inner entries; T.Times replaced by its C08 contract"),
            J("gf2p16", "C09_table_mulTable64", bound="every outer index i (symbolic), all 16 inner entries x 8 sub-tables"),
            J("gf2p16", "C09_dispatch_mul", bound="every even length 0..2^62, both dispatch flags; buffers abstract (no contents)"),
            J("gf2p16", "C09_dispatch_muladd", bound="every even length 0..2^62, both dispatch flags"),
            J("gf2p16", "C09_size_mismatch", bound="all pairs of different lengths"),
            J("gf2p16", "C09_generic_mul", bound="0..4 words, symbolic constant and contents"),
            J("gf2p16", "C09_generic_muladd", bound="0..4 words"),
            J("gf2p16", "C09_slice_generic", bound="0..3 words"),
            J("gf2p16", "C09_exported_mul", bound="every even length 0..70 bytes, symbolic constant, contents and SSSE3 flag"),
            J("gf2p16", "C09_exported_muladd", bound="every even length 0..70 bytes"),
            J("gf2p16", "C09_platformLE", bound="0..19 words through the unsafe []T<->[]byte views"),
            J("gf2p16", "C09_inplace", bound="MulByteSliceLE(c, buf, buf): every even length 0..70 bytes, symbolic constant, contents and SSSE3 flag"),
            J("gf2p16", "C09_muladd_thrice", bound="three MulAndAddByteSliceLE calls in one process with lengths (62,34,62), (34,62,34), (40,36,44), (6,2,4), symbolic constants, contents and SSSE3 flag (sync.Pool modelled as a LIFO free list)"),
            J("gf2p16", "C09_inplace_row", bound="mulSlice(c, row, row) as called by Matrix.scaleRow: 0..35 elements"),
            J("gf2p16", "C09_asm_replay", kind="asmsym", bound="the four production kernels of slice_amd64.s as assembled by go tool asm: every length allowed by the callers (scalar: even, >= 2; SSSE3: >= 32; < 2^62), every constant, every content, symbolic base addresses, in != out and in == out; loops cut by induction on the iteration number"),
            J("gf2p16", "C09_dispatch_mul", tier="thorough", tag="@z3-new", args=["-solver", "z3-new"], bound="same harness decided by z3 5.1.0 (cross-solver check)"),
        ],
    ),
    "C11": dict(
        explanation="matrix inversion / row reduction on the real rowReduceForInverse, Inverse, RowReduceForInverse, Times, clone, swapRows, scaleRow, addScaledRow",
        assumptions=["T.Times is replaced by its C08 contract (gfmul); row kernels by their C09 contract",
                     "fully symbolic GF(2^16) matrices are outside the claim: symbolic matrices have 0/1 entries, 16-bit symbolic data appears only on the right-hand side"],
        jobs=[
            J("gf2p16", "C11_inverse_01", bound="every 0/1 matrix of dimension 1..3 (symbolic bits)", must_reach=["singular", "nonsingular"]),
            J("gf2p16", "C11_rowreduce_01", bound="every 0/1 matrix of dimension 1..2 with a fully symbolic n x k right-hand side, k 1..3", must_reach=["nonsingular"]),
            J("gf2p16", "C11_rowreduce_01_n3", tier="thorough", bound="every 0/1 matrix of dimension 1..3 with symbolic right-hand side"),
            J("gf2p16", "C11_rowreduce_concrete", bound="10 concrete structured matrices (swaps at every pivot, non-unit pivots, rank deficient) x fully symbolic n x k right-hand side, k 1..5 (narrower, equal, wider)", must_reach=["singular", "nonsingular"]),
            J("gf2p16", "C09_inplace_row", bound="the in-place row kernel contract scaleRow relies on: mulSlice(c, row, row), 0..35 elements"),
            J("gf2p16", "C11_times", bound="2x2 by 2x2 fully symbolic"),
            J("gf2p16", "C11_fill", bound="NewMatrixFromFunction and NewIdentityMatrix for dimensions 1x1, 3x5, 33x31, 129x128, 130x127, 200x100, 257x3, 263x1, 300x2 (every element, symbolic base value)"),
            J("gf2p16", "C11_wide_swap", bound="2x2 row exchange with a right-hand side of 300 columns (symbolic at columns 0, 1, 255, 256, 257, 299): result, N unchanged"),
            J("gf2p16", "C11_reduce_twice", bound="two row reductions in one process (right-hand sides of 1..3 and then 2 / 5 / 9 columns, row exchange needed)"),
        ],
    ),
    "C07": dict(
        explanation="Reed-Solomon coder: every erasure pattern of small codes, symbolic shard contents, plus unit VCs with symbolic sizes",
        assumptions=["assembly kernels used through their C09 contract; T.Times/Inverse/Pow run on the real (dumped) tables with concrete operands"],
        jobs=[
            J("rsec16", "C07_cauchy_xy", bound="all data/parity counts with d+p <= 65535, all index pairs (symbolic)"),
            J("rsec16", "C07_reconstruct_twice", bound="one coder value (Cauchy and PAR2-Vandermonde 2+3), two ReconstructData calls with the same missing data shard and different parity shards available"),
            J("rsec16", "C07_generators", bound="all 32768 generators (constant folding over the real init against a specification power)"),
            J("rsec16", "C07_vandermonde_elem", bound="3x3 block"),
            J("rsec16", "C07_cauchy", bound="d 1..3, p 1..2, every subset of missing data and parity shards, shard length 2..4 bytes symbolic, goroutines 1..2", must_reach=["not-enough", "reconstructed"]),
            J("rsec16", "C07_vandermonde", bound="d 1..3, p 1..2, every erasure subset, shard length 2..4 bytes, goroutines 1..2; singularity decided by an independent Gaussian elimination", must_reach=["not-enough", "reconstructed"]),
            J("rsec16", "C07_cauchy_gap", bound="d 1..2, p 1..3, every erasure subset (gaps between the used parity rows), 2-byte shards"),
            J("rsec16", "C07_vandermonde_gap", bound="d 1..2, p 1..3, every erasure subset, 2-byte shards"),
            J("rsec16", "C07_cauchy_big", tier="thorough", bound="d 1..5, p 1..3, every erasure subset, shard length 2/18/34 bytes, goroutines 1..3", timeout=14000),
            J("rsec16", "C07_vandermonde_big", tier="thorough", bound="d 1..5, p 1..3, every erasure subset, shard length 2/18/34 bytes, goroutines 1..3", timeout=14000),
        ],
    ),
    "C12": dict(
        explanation="partition arithmetic for every length and goroutine count (integer theory), footprint disjointness and equality with single-threaded execution on concrete lengths with symbolic data and matrix",
        assumptions=["interleavings are not explored: tasks are run sequentially in forward and in reverse spawn order; race freedom is concluded from pairwise disjoint write/read footprints plus the fork/join structure (paper argument, DESIGN.md section 5)",
                     "the Go memory model"],
        jobs=[
            J("rsec16", "C12_params", bound="every total length 0..2^62, every goroutine count 1..2^31, symbolic worker index; min 16, divisor 16"),
            J("rsec16", "C12_params_out", bound="same with min 1, divisor 1 (applyMatrixParallelOut)"),
            J("rsec16", "C12_partition_symbolic", race=True, bound="the real applyMatrixParallelData and worker closures on buffers of symbolic even length 2..2^61 (no contents), 1..4 requested goroutines: worker ranges consecutive, non-empty, covering; WaitGroup count = workers"),
            J("rsec16", "C12_coder_goroutines", race=True, bound="Cauchy coder 2+2, shard lengths 2,16,30,32,34,48,62,64,66 with symbolic contents, 2..5 goroutines against the single-goroutine coder: GenerateParity and ReconstructData of both data shards"),
            J("rsec16", "C12_parallel_twice", race=True, bound="two applyMatrixParallelData calls in one process with different shard lengths (32/34, 34/32, 16/48, 64/66, 20/36), 2..4 goroutines: each equals the single-threaded result"),
            J("rsec16", "C12_parallel_data", race=True, bound="shard length 2..24 bytes, goroutines 1..4, 2x2 symbolic matrix, symbolic data, forward and reverse task order"),
            J("rsec16", "C12_parallel_data_long", race=True, bound="shard length 26..64 bytes, goroutines 1..6 (2..4 workers, clamped last chunk)"),
            J("rsec16", "C12_parallel_out", race=True, bound="shard length 2..6 bytes, goroutines 1..3"),
            J("rsec16", "C12_params", tier="thorough", tag="@z3-new", args=["-solver", "z3-new"], bound="same harness decided by z3 5.1.0 (cross-solver check)"),
        ],
    ),
    "C04": dict(
        explanation="real PAR1 create / verify / repair on the symbolic file system with a contract stub of klauspost/reedsolomon",
        assumptions=["github.com/klauspost/reedsolomon (third-party, SIMD assembly) is replaced by a contract stub implementing the PAR1 matrix over GF(2^8) mod 0x11D; on native replay the real library runs",
                     "MD5 injective model; symFS below the package's fileIO interface"],
        jobs=[
            J("par1", "C04_roundtrip", bound="1..3 files of 0..3 symbolic bytes (incl. an empty file next to non-empty ones), 1..2 volumes, every subset of data files deleted / overwritten, every subset of volumes deleted, double-check on/off", must_reach=["clean", "repairable", "unrepairable"]),
            J("par1", "C04_roundtrip_unicode", bound="a non-ASCII name and a name needing a UTF-16 surrogate pair, sizes 2 and 0, 2 volumes, every damage subset"),
            J("par1", "C04_sixteenk", timeout=1500, args=["-max-steps", "2000000000"], bound="one file of exactly 16384 / 16385 / 65535 / 65536 concrete bytes (the 16k-hash boundary, a 64 KiB multiple), 1 volume, every damage of the C04 scenario incl. appended byte"),
            J("par1", "C04_max_volumes", bound="one 2-byte file with the maximum of 99 volumes: all found; any one of volumes 1, 50, 98, 99 alone repairs the lost file"),
            J("par1", "C04_max_shards", timeout=1500, args=["-max-steps", "600000000"], bound="157 (and 156) one-byte files with 99 volumes (256 resp. 255 shards): every volume found; the last volume alone repairs a lost file"),
            J("par1", "C04_damage_after_verify", timeout=1500, bound="PAR1: Verify of an intact 16388-byte file, one byte changed in place at offset 5 / 16384 / 16387, Verify and Repair again in the same process"),
        ],
    ),
    "C10": dict(
        explanation="PAR 1.0 layout: the real writer judged by an independent reader; the real reader on sets from an independent reference writer",
        assumptions=["reedsolomon contract stub as in C04: what is checked is ordering, padding, numbering, hashes and that the PAR1 matrix is requested"],
        jobs=[
            J("par1", "C10_writer", bound="1..3 files (non-ASCII and surrogate-pair names, an empty file), 1..2 volumes, symbolic contents"),
            J("par1", "C10_reader", bound="symbolic 32-bit program id in the version field of every volume; 2 saved entries + 1 non-saved entry at every position, a comment in the index, 2 volumes; one saved file lost"),
            J("par1", "C10_reader_many", timeout=1500, args=["-max-steps", "600000000"], bound="reference-written index with 255 / 256 / 262 entries (2 saved, the rest not saved), 2 volumes, both saved files lost"),
            J("par1", "C10_two_shapes", bound="two PAR1 sets of different shapes in one process (1x12 then 11x2 files x volumes, 11x2 then 1x12, 2x3 then 3x2): the second verified incl. the full parity check and repaired"),
        ],
    ),
    "C20": dict(
        explanation="the real main of cmd/par on an argument vector chosen by the solver, library entry points stubbed with symbolic outcomes; library side: needed-but-impossible repairs are classified, and a nil error from Repair means every file is restored (the C01 scenario harness, which is what status 0 of `par r` rests on)",
        assumptions=["the flag package runs as real SSA; FlagSet.PrintDefaults and fmt printing are no-ops; -cpuprofile (pprof, signal handler) is outside the claim",
                     "counterexamples of C20_main are replayed by building the par binary and running it on real files in a scratch directory"],
        jobs=[
            J("cmd/par", "C20_main", replay="c20", no_native=True, bound="commands c/create/v/verify/r/repair in mixed case, bogus, none; index names s.par, s.par2, dir/s.par2, a.b.par2, a.b.par, d.x/s.par2, other / no extension, none; flags none, -g 2, an unknown flag before or after the command, a flag of the sub-command after the command word; 0..1 data files; library outcome nil / needed-but-impossible / other error; unusable and usable counts 0..2", must_reach=["usage", "verify", "repair"]),
            J("par2", "C01_repair_one", bound="1 file of 4/5/8 bytes, slice 4, 2 recovery blocks, goroutines 1..2, damage: intact, missing, one slice overwritten, 1..4 bytes inserted at the front, truncated at every length, 1..2 bytes appended, arbitrary content of length 0..len+1; double-check on/off", must_reach=["repaired"]),
            J("par2", "C20_par2_classify", bound="PAR2 library: every file missing and 0..1 of 1 recovery files left: Repair's error is classified as needed-but-impossible"),
        ],
    ),
    "C05": dict(
        explanation="real Create on a symbolic file system, output judged by an independent PAR2 reader and Reed-Solomon oracle written from the specification",
        assumptions=["MD5 is modelled as an injective function (collision- and forgery-free); CRC32 is the bitwise reflected CRC (validated against hash/crc32)",
                     "file system below the package's fileIO interface is the symFS model; encoding/binary is modelled from go/types layouts",
                     "fileIDLess is replaced by its specification in scenario harnesses; the replacement is justified by C05_fileIDLess"],
        jobs=[
            J("par2", "C05_fileIDLess", bound="all pairs of 16-byte ids"),
            J("par2", "C05_create_one", bound="1 file of 1,3,4,5,9 symbolic bytes, slice size 4, 1..3 recovery blocks, goroutines 1..2"),
            J("par2", "C05_create_two", bound="2 files (3,4),(4,5),(8,1) symbolic bytes, 1..2 blocks; both id orders"),
            J("par2", "C05_create_three", bound="3 files 5,4,3 bytes, 1/4/5 blocks (3 volume files), goroutines 1..2; all 6 id orders"),
            J("par2", "C05_create_names", bound="2..3 files whose names have different lengths (not multiples of 4, sub-directories, paths of 256 / 257 / 312 bytes), symbolic contents of 1..3 bytes (both id orders), 1 block"),
            J("par2", "C05_index_names", bound="index base names s, data, x2, a., par, set.v1, arp2.par2; 1 file of 3 symbolic bytes, 3 blocks: paths written, neighbouring file untouched, Verify finds every block"),
            J("par2", "C05_big_packets", timeout=1500, args=["-max-steps", "600000000"], bound="packet bodies around 1 KiB: slice sizes 988 / 992 / 1000 / 2000; 48 / 49 / 50 slices; 61 / 62 / 63 files: packet MD5 of every packet written"),
            J("par2", "C05_create_thrice", timeout=1500, bound="three Create runs of different shapes (5x4, 10x2, 8x4 and 2x5, 6x1, 4x5 slices x blocks) in one process; the third judged by the independent reader and Reed-Solomon oracle"),
            J("par2", "C05_sixteenk", bound="file lengths 16383, 16384, 16385"),
            J("par2", "C05_volume_layout", bound="1..40 recovery blocks"),
        ],
    ),
    "C15": dict(
        explanation="real checkFilename, path.Clean, filepath.Join/Dir/Rel executed on names of symbolic bytes over a traversal alphabet",
        assumptions=["Unix path semantics (GOOS=linux); symlinks are outside the claim", "alphabet { . / \\ a NUL 0x80 } stands for the byte classes the code distinguishes"],
        jobs=[
            J("par2", "C15_checkFilename", bound="declared names of 0..4 symbolic bytes", must_reach=["accepted", "rejected"]),
            J("par2", "C15_checkFilename_long", bound="declared names of 0..6 symbolic bytes"),
            J("par2", "C15_deep_traversal", must_reach=["rejected"], bound="1, 255, 256, 257, 512 leading .. components followed by a symbolic tail of 0..2 bytes"),
            J("par2", "C15_getFilePath", bound="names of 0..3 bytes, relative index path"),
            J("par2", "C15_newEncoder", bound="input paths '/'+0..4 symbolic bytes against base /a", must_reach=["accepted"]),
            J("par1", "C15_par1_names", bound="PAR1: declared names of 1..4 symbolic bytes over { . / \\ a }, file missing, one volume", must_reach=["written"]),
            J("par2", "C15_repair_names", bound="fully repairable archive whose declared name is 1..4 symbolic bytes over { . / a }, file missing: every path read or written"),
        ],
    ),
    "C16": dict(
        explanation="rolling CRC identity for listed window sizes (normal form) and the slice search of the real decoder on damaged files",
        assumptions=["window sizes not listed are outside the claim", "scenario contents: fixed distinct / fixed duplicate-slice contents with symbolic damage bytes"],
        jobs=[
            J("par2", "C16_crc_window", bound="window sizes 4,8,12,16,20,32,36,64,68,252,256; all windows of n+1 symbolic bytes"),
            J("par2", "C16_crc_window_big", tier="thorough", bound="window sizes 24,28,100,128,256,512,1000,2000"),
            J("par2", "C16_locmap", must_reach=["hit"], bound="the real checksumShardLocationMap.put/get with 2..3 registered slices of 8 symbolic bytes, arbitrary (data-independent) 32-bit CRC values incl. equal CRCs with different content, one symbolic query window"),
            J("par2", "C16_search_arbitrary", bound="1 file of 4/5/8 bytes, slice 4; insertion of 1..4 bytes, truncation at every length, appended bytes, one overwritten slice"),
            J("par2", "C16_two_files", bound="2 files of 4+5 bytes swapped, or damaged independently (every structured damage kind on the first, 3 kinds on the second): usable >= slices standing alone in some surviving file"),
            J("par2", "C16_two_slice_sizes", bound="two one-file sets of 3 slices with slice sizes (4,8), (8,4), (4,64), (12,8) created, shifted by one inserted byte and verified one after the other in one process"),
            J("par2", "C16_big_copy", timeout=1500, args=["-max-steps", "2000000000"], bound="two identical files of 65535 / 65536 / 65537 / 131072 concrete bytes, slice size 16384, 1 block, either copy lost"),
            J("par2", "C16_search_sym", tier="thorough", bound="1 file of 4/5 fully symbolic bytes; insertion, truncation, append; oracle = slices surviving at a non-overlapped offset", timeout=3000),
        ],
    ),
    "C01": dict(
        explanation="real Create, damage, real Repair (and Verify afterwards) on the symbolic file system",
        assumptions=["MD5 injective model; symFS below fileIO; fileIDLess replaced by its verified specification",
                     "quick tier: fixed file contents (pairwise distinct slices / identical low-entropy slices) with symbolic damage bytes (symBudget bytes per damage are solver variables, the rest a fixed filler); sizes as listed"],
        jobs=[
            J("par2", "C01_repair_one", bound="1 file of 4/5/8 bytes, slice 4, 2 recovery blocks, goroutines 1..2, damage: intact, missing, one slice overwritten, 1..4 bytes inserted at the front, truncated at every length, 1..2 bytes appended, arbitrary content of length 0..len+1; double-check on/off", must_reach=["repaired"]),
            J("par2", "C01_repair_two", bound="2 files of 4 and 5 bytes, 2 blocks; per-file damage as above (first file: 4 kinds, second: 2) or the two files swapped", must_reach=["repaired"]),
            J("par2", "C16_locmap", must_reach=["hit"], bound="the real checksumShardLocationMap.put/get with 2..3 registered slices of 8 symbolic bytes, arbitrary (data-independent) 32-bit CRC values incl. equal CRCs with different content, one symbolic query window"),
            J("par2", "C01_repair_sym", tier="thorough", bound="1 file of 4/5 fully symbolic bytes, 1 block, 6 structured damage kinds (2 blocks: does not finish within 25 min, outside the claim)", timeout=5000),
        ],
    ),
    "C02": dict(
        explanation="write log of the symbolic file system during Repair / Verify / Create compared with the originals",
        assumptions=["MD5 injective model; symFS below fileIO", "PAR1: reedsolomon contract stub as in C04"],
        jobs=[
            J("par2", "C05_index_names", bound="index base names s, data, x2, a., par, set.v1, arp2.par2; 1 file of 3 symbolic bytes, 3 blocks: paths written, neighbouring file untouched, Verify finds every block"),
            J("par2", "C02_default_io", bound="the real defaultFileIO.WriteFile / ReadFile (ioutil -> os.WriteFile real SSA -> modelled OpenFile/Write/Close with POSIX flag semantics) on a path that is missing or holds 0..4 symbolic bytes, new contents 0..3 symbolic bytes, one bystander file"),
            J("par1", "C02_par1_default_io", bound="same, PAR1's defaultFileIO"),
            J("par1", "C02_par1_garbage_parity", must_reach=["written", "rejected"], bound="PAR1 set of one file of 3 / 16386 bytes, the volume's last parity byte xor a symbolic value with the control hash recomputed, data file missing, double-check on/off"),
            J("par2", "C02_repair_arbitrary", bound="1 file of 4/5/8 bytes, 1 block, arbitrary current content of length 0..len+1, a bystander file present, double-check on/off"),
            J("par2", "C02_garbage_parity", bound="recovery block replaced by arbitrary bytes with a recomputed packet hash; file intact / missing / one slice overwritten"),
            J("par2", "C02_big_garbage_parity", timeout=1500, bound="16388-byte file, slice size 8192, last slice lost, first byte of the recovery block xor a non-zero symbolic value with the packet hash recomputed; double-check on/off"),
            J("par2", "C02_two_generations", timeout=1500, bound="Repair of generation A, then of generation B with A's recovery file beside it and its last slice lost"),
            J("par1", "C04_roundtrip_unicode", bound="PAR1: write log of Repair for every damage subset of a 2-file, 2-volume set (the C04 harness)"),
        ],
    ),
    "C03": dict(
        explanation="real Verify on damaged sets against a reference notion of surviving slices",
        assumptions=["MD5 injective model; symFS below fileIO", "quick tier: fixed contents, symbolic damage bytes"],
        jobs=[
            J("par2", "C03_verify_one", bound="1 file of 4/5/8 bytes, 1 block present or deleted, 6 structured damage kinds"),
            J("par2", "C03_verify_two", bound="2 files of 4 and 5 bytes, 2 blocks, per-file damage or files swapped"),
            J("par2", "C03_two_generations", timeout=1500, bound="two generations of a 16388-byte file (same name, length, first 16 KiB; slice size 8192) verified one after the other; the second intact, or with the first generation's file in its place"),
            J("par2", "C03_verify_arbitrary", bound="1 file of 4/5 bytes, arbitrary current content"),
            J("par2", "C16_locmap", must_reach=["hit"], bound="the real checksumShardLocationMap.put/get with 2..3 registered slices of 8 symbolic bytes, arbitrary (data-independent) 32-bit CRC values incl. equal CRCs with different content, one symbolic query window"),
            J("par2", "C06_volume_names", bound="2 files, blocks 0..2 spread over 1..3 volume files named s.<anything>.par2 (spaces, extra dots)"),
            J("par2", "C13_big_truncate", bound="one protected file of 16388 concrete bytes, slice size 8192, 1 block; the data file cut to 0, 1, 8191, 8192, 16383, 16384, 16385, 16387 bytes, or one byte changed in place at offset 0, 16383, 16384, 16387"),
            J("par2", "C03_verify_sym", tier="thorough", bound="1 file of 4/5 fully symbolic bytes, 6 structured damage kinds (1 symbolic damage byte)", timeout=3000),
        ],
    ),
    "C14": dict(
        explanation="one Repair step from an arbitrary state of the protected file and recovery file; induction over histories argued on paper (DESIGN.md section 5)",
        assumptions=["PAR1: reedsolomon contract stub as in C04", "the only state carried between operations is the directory content (decoders are rebuilt from disk on every call)"],
        jobs=[
            J("par2", "C14_step", bound="1 file of 4/5/8 bytes, 1 block present or deleted, 7 damage kinds incl. arbitrary content; Repair, then Verify and a second Repair", must_reach=["failed", "succeeded"]),
            J("par2", "C14_many_identical", timeout=1500, args=["-max-steps", "600000000"], bound="a file of 255 / 256 / 257 / 300 identical slices plus a 3-byte file, 1 block; intact, or the second file lost: Repair, Verify, second Repair"),
            J("par2", "C14_big_then_damage", timeout=1500, bound="16388-byte file, slice size 8192: Verify of the intact set, then one byte changed in place at offset 100 / 16384 / 16387, Verify and Repair again in the same process"),
            J("par1", "C04_roundtrip", bound="PAR1: Repair from every damage state of the C04 scenario leaves only originals (the C04 harness)"),
        ],
    ),
    "C06": dict(
        explanation="sets produced by an independent reference writer (in the harness) in many layouts are verified and repaired by the real decoder",
        assumptions=["layout harnesses use symFS prefix/suffix matching for the directory search; the real search (defaultFileIO) is checked separately by C06_glob on a modelled directory listing (os.Stat/Open/Readdirnames)",
                     "concrete file contents; exponents from a fixed list"],
        jobs=[
            J("par2", "C06_layouts", bound="body-less (length 64) unknown packets of the own and of a foreign set interleaved; 1 file in a sub-directory, 2 blocks with exponent pairs (0,1),(1,0),(2,7),(5,100),(1000,3),(3000,0); index and volume packet order: identity, reversed, rotated, evens-then-odds, duplicated; foreign-set and unknown-type packets interleaved", must_reach=["repaired"]),
            J("par2", "C06_glob", bound="the real defaultFileIO.FindWithPrefixAndSuffix (filepath.Glob, real SSA) on a modelled directory: base names of 1..3 symbolic bytes over { a space - [ ] * ? \\ }"),
            J("par2", "C06_glob_many", bound="the real directory search in a modelled directory of exactly 255 / 256 / 257 / 512 entries (Readdirnames with its count and end-of-directory semantics)"),
            J("par2", "C06_basename", bound="the real newDecoder + LoadParityData with an index path whose base name is 1..3 symbolic bytes over {x p a r 2 . space}: prefix and suffix handed to the directory search"),
            J("par2", "C06_volume_names", bound="2 files, blocks 0..2 spread over 1..3 volume files named s.<anything>.par2 (spaces, extra dots)"),
            J("par2", "C06_high_exponents", must_reach=["repaired"], timeout=1500, bound="exponent pairs (40000,1), (2,65534), (32768,32769), 5-byte file missing, plain packet order"),
            J("par2", "C06_two_exponent_sets", bound="two reference-written sets with equal counts and different exponents ({0,1}/{0,3}, {0,1}/{2,7}, {1,0}/{5,100}) repaired one after the other"),
        ],
    ),
    "C17": dict(
        explanation="relational harness: two runs of the real Create on the same symbolic contents must produce byte-identical write logs",
        assumptions=["PAR2 (PAR1 order is significant by format; PAR1 determinism is part of the C04/C10 harnesses)", "fileIDLess is replaced by its specification in the scenario harnesses; the replacement is justified by C05_fileIDLess, run under C17 as well", "os.Getwd is modelled by zzverifrt.SetCwd (a real chdir on native replay)"],
        jobs=[
            J("par2", "C05_fileIDLess", bound="all pairs of 16-byte ids: the real fileIDLess == little-endian 128-bit unsigned comparison (the summary the C17 scenarios sort by; a comparator that is not a total order makes the packet order depend on the input order)"),
            J("par2", "C17_order_goroutines", bound="2 files of 5 and 4 symbolic bytes, 2 blocks, input list reversed, goroutines 1 vs 1..3"),
            J("par2", "C17_order_three", tier="thorough", bound="3 files, every permutation of the input list, goroutines 1 vs 1..3", timeout=3000),
            J("par2", "C17_map_order", bound="2 files, 3 blocks, every iteration order of every map ranged over during the second run (symbolic permutation)"),
            J("par2", "C17_paths", bound="one file in a sub-directory: absolute vs relative, ./ and // spellings, working directory = set directory, its parent, a sibling, a sub-directory"),
            J("par1", "C17_par1_paths", bound="PAR1 Create of 2 files (2 and 3 symbolic bytes), 2 volumes: 6 spellings incl. mixed relative/absolute, ./ and doubled separators, working directory / and /d, repeated run; input order fixed"),
            J("par2", "C17_create_changed", timeout=1500, bound="Create, one symbolic change at offset 16386 of the 16388-byte file, Create again in the same process: whole-file MD5 in the new index, the new set verifies clean"),
        ],
    ),
    "C18": dict(
        explanation="the symbolic file system fails the n-th read / the directory listing / the n-th write (optionally leaving a torn prefix), n ranging over every I/O call of the operation",
        assumptions=["single fault per run", "PAR1: reedsolomon contract stub as in C04"],
        jobs=[
            J("par2", "C18_create_faults", bound="2 input files, 3 blocks (index + 2 volumes): fault at each of 2 reads / 3 writes, torn prefix of 0, 64, 100 bytes or none"),
            J("par2", "C18_verify_faults", bound="2 files, 2 blocks, intact or one file missing: fault at each read, or at the directory listing"),
            J("par2", "C18_repair_faults", bound="2 files both needing repair, 3 blocks: fault at each read, the listing, or each write (torn 0 / 2 bytes / untouched)"),
            J("par2", "C18_index_only_faults", bound="intact 5-byte file, every recovery file removed: Verify / Repair (double-check on/off) with a fault at each read and each directory listing the code makes in that state"),
            J("par2", "C18_fault_then_other_set", bound="write fault (torn or not) during the Repair of one set, then a fault-free Repair of another set in the same process"),
            J("par1", "C18_par1_create_faults", bound="PAR1 Create (2 files, 2 volumes): fault at each of 2 reads / 3 writes (torn or not); PAR1 Verify: fault at each read"),
            J("par1", "C18_par1_faults", bound="PAR1 Repair: fault at each read or at the write (torn 0 / 1 byte / untouched)"),
        ],
    ),
    "C13": dict(
        explanation="truncation at every offset, any single corrupted byte, deletion/emptying of any subset of files, interrupted Create prefixes; PAR2",
        assumptions=["MD5 injective model", "PAR1: reedsolomon contract stub as in C04"],
        jobs=[
            J("par2", "C13_truncate_index", bound="index file cut at every length 0..len; data present or missing"),
            J("par2", "C13_truncate_volume", bound="volume file cut at every length"),
            J("par2", "C16_locmap", must_reach=["hit"], bound="the real checksumShardLocationMap.put/get with 2..3 registered slices of 8 symbolic bytes, arbitrary (data-independent) 32-bit CRC values incl. equal CRCs with different content, one symbolic query window"),
            J("par2", "C13_big_truncate", bound="one protected file of 16388 concrete bytes, slice size 8192, 1 block; the data file cut to 0, 1, 8191, 8192, 16383, 16384, 16385, 16387 bytes, or one byte changed in place at offset 0, 16383, 16384, 16387"),
            J("par2", "C13_damage_after_verify", bound="Verify of the intact set, then one byte flipped inside the recovery packet body, Verify and Repair again in the same process"),
            J("par2", "C13_truncate_data", bound="data file of 9 bytes cut at every length"),
            J("par2", "C13_corrupt_byte", bound="any one byte of the index or volume file replaced by any other value"),
            J("par2", "C13_delete_subset", bound="every file of a 2-file, 2-block set present / deleted / emptied (3^5 states)"),
            J("par2", "C13_interrupted_create", bound="every prefix of Create's 3 file writes, last file cut at every packet boundary"),
            J("par1", "C13_par1_truncate", bound="PAR1: index or either volume cut at every length; data intact / one file missing / one file and all volumes missing"),
            J("par1", "C13_par1_corrupt", bound="PAR1: any one byte of the index or first volume replaced by any other value"),
        ],
    ),
    "C19": dict(
        explanation="well-checksummed but inconsistent PAR2 archives from a reference writer; boundary values for every numeric field",
        assumptions=["boundary value lists as in the property's quantifier", "PAR1: reedsolomon contract stub as in C04"],
        jobs=[
            J("par2", "C19_packet_length", bound="Length field of any one packet of index or volume: all 2^64 values"),
            J("par2", "C19_main_fields", bound="slice size x recovery-set count over boundary lists"),
            J("par2", "C19_desc_fields", bound="declared file length over a boundary list"),
            J("par2", "C19_recovery_fields", bound="exponent over a boundary list x recovery data of 0, 4, 8 bytes"),
            J("par2", "C06_two_exponent_sets", bound="two reference-written sets with equal counts and different exponents repaired one after the other (state kept between sets must not depend on counts alone)"),
            J("par2", "C19_missing_packets", bound="each mandatory packet type removed / main duplicated"),
            J("par2", "C19_file_hash", bound="declared whole-file MD5 = 16 arbitrary bytes, valid recovery blocks 0 and 1, data file missing", must_reach=["written", "rejected"]),
            J("par1", "C19_par1_fields", bound="PAR1: volume number, file count, list size, data offset, data size, entry size, file length at boundary values in the index or a volume, control hash recomputed"),
            J("par1", "C19_par1_long_name", bound="reference-written PAR1 set with a file name of 255 / 256 / 257 / 300 UTF-16 units (saved or not saved), 1 volume: Verify, Repair of the other file"),
            J("par2", "C19_ifsc_count", bound="0..4 checksum pairs for a 2-slice file; data present / missing / first slice damaged; valid recovery blocks"),
            J("par2", "C19_id_lists", bound="2 files; id list sorted / unsorted / duplicated / short / long; recovery-set count 0..4; either file missing"),
        ],
    ),
}


NOT_APPLICABLE = {}


C20_CMDS = ["c", "create", "v", "verify", "r", "repair", "C", "Verify", "REPAIR", "bogus", ""]
C20_FILES = ["s.par", "s.par2", "dir/s.par2", "s.txt", "s", "", "a.b.par2", "a.b.par", "d.x/s.par2"]


def replay_c20(cex, scratch, repo, goenv):
    """Replays a C20_main counterexample with the real binary on real files:
    the argument vector is rebuilt exactly as the harness builds it, the
    directory is put into the state that makes the real library produce the
    modelled outcome, and the exit status is compared with the property's table."""
    import os, subprocess, shutil
    m = cex["model"]
    cmd = C20_CMDS[m.get("cmd", 0)]
    fname = C20_FILES[m.get("file", 0)]
    flag_kind = m.get("flags", 0)
    outcome = m.get("outcome", 0)
    unusable, usable = m.get("unusable", 0), m.get("usableParity", 0)
    ndata = m.get("dataFiles", 0) if fname != "" else 0
    par = os.path.join(scratch, "par-bin")
    r = subprocess.run(["go", "build", "-o", par, "./cmd/par"], cwd=repo, env=goenv, stdout=subprocess.PIPE, stderr=subprocess.STDOUT, text=True)
    if r.returncode != 0:
        return dict(error="cannot build par: " + r.stdout[-300:])
    d = os.path.join(scratch, "c20dir")
    shutil.rmtree(d, ignore_errors=True)
    os.makedirs(os.path.join(d, "dir")); os.makedirs(os.path.join(d, "d.x"))
    run = lambda args: subprocess.run([par] + args, cwd=d, stdout=subprocess.PIPE, stderr=subprocess.STDOUT).returncode
    lower = {"c": "create", "create": "create", "C": "create", "v": "verify", "verify": "verify", "Verify": "verify", "r": "repair", "repair": "repair", "REPAIR": "repair"}.get(cmd)
    is_par = fname.endswith((".par", ".par2"))
    usage = flag_kind in (2, 3) or cmd == "" or lower is None or fname == "" or (lower == "create" and ndata == 0)
    argv = []
    if flag_kind == 1:
        argv += ["-g", "2"]
    if flag_kind == 2:
        argv += ["-nosuchflag"]
    if cmd != "":
        argv += [cmd]
    if flag_kind == 3:
        argv += ["-nosuchflag"]
    if flag_kind == 4 and lower is not None:
        argv += {"create": ["-c", "2"], "verify": ["-a"], "repair": ["-doublecheck"]}[lower]
    if fname != "":
        argv += [fname]
        if ndata == 1:
            argv += ["data1"]
    state = "n/a"
    want = None
    if usage:
        want = (3,)
    elif not is_par:
        want = "failure"
    else:
        sub = fname.rsplit("/", 1)[0] + "/" if "/" in fname else ""
        if lower == "create":
            if outcome == 0:
                open(os.path.join(d, "data1"), "wb").write(b"hello")
                want = (0,)
            else:
                # Create fails: realised three ways (missing input -> wrapped OS error; invalid
                # slice size and an input outside the index directory -> plain library errors)
                variants = [argv]
                if fname.endswith(".par2"):
                    open(os.path.join(d, "data1"), "wb").write(b"hello")
                    variants.append(argv[:argv.index(cmd) + 1] + ["-s", "6"] + argv[argv.index(cmd) + 1:])
                    os.makedirs(os.path.join(d, "inner"), exist_ok=True)
                    variants.append(argv[:argv.index(cmd) + 1] + ["inner/" + os.path.basename(fname), "data1"])
                bad = []
                for i, av in enumerate(variants):
                    if i == 1:
                        pass
                    if i == 0 and len(variants) > 1:
                        os.remove(os.path.join(d, "data1"))
                        code = run(av)
                        open(os.path.join(d, "data1"), "wb").write(b"hello")
                    else:
                        code = run(av)
                    if code in (0, 3):
                        bad.append("par %s -> exit %d" % (" ".join(av), code))
                return dict(fails=[cex["label"] + " [binary: " + "; ".join(bad) + "]"] if bad else [], exit_code=-1, state="create-fails")
        else:
            for n, c in (("a", b"hello"), ("b", b"xyz")):
                open(os.path.join(d, sub + n), "wb").write(c)
            if run(["c", "-c", "2", fname, sub + "a", sub + "b"]) != 0:
                return dict(error="cannot create the set")
            folder = os.path.join(d, sub.rstrip("/")) if sub else d
            stem = os.path.basename(fname).rsplit(".", 1)[0]
            vols = [os.path.join(folder, f) for f in os.listdir(folder) if f.startswith(stem + ".") and f != os.path.basename(fname)]
            if lower == "verify":
                state = "broken" if outcome == 2 else "intact" if unusable == 0 else "repairable" if unusable <= usable else "unrepairable"
            else:
                state = ["intact", "unrepairable", "broken"][outcome]
            if lower == "verify" and state in ("repairable", "unrepairable"):
                # realise the modelled counts: `unusable` of the two one-slice files lost,
                # exactly `usable` of the two recovery blocks left
                import re
                for n in ("a", "b")[:max(1, min(2, unusable))]:
                    os.remove(os.path.join(d, sub + n))
                def blocks(v):
                    mm = re.search(r"\+(\d+)\.par2$", v)
                    return int(mm.group(1)) if mm else 1
                left = sum(blocks(v) for v in vols)
                for v in sorted(vols, reverse=True):
                    if left - blocks(v) >= usable:
                        os.remove(v)
                        left -= blocks(v)
                if left != usable:
                    return dict(error="cannot leave exactly %d recovery blocks (volumes: %s)" % (usable, [os.path.basename(v) for v in vols]))
            elif state in ("repairable", "unrepairable"):
                os.remove(os.path.join(d, sub + "a"))
                if state == "unrepairable":
                    for v in vols:
                        os.remove(v)
            if state == "broken":
                open(os.path.join(d, fname), "r+b").truncate(10)
            want = {"intact": (0,), "repairable": (1,) if lower == "verify" else (0,), "unrepairable": (2,), "broken": "failure"}[state]
    code = run(argv)
    if want == "failure":
        ok = code not in (0, 1, 2, 3)
    elif want == "nonzero-not-3":
        ok = code not in (0, 3)
    else:
        ok = code in want
    return dict(fails=[] if ok else [cex["label"] + " [binary: par %s -> exit %d, state %s, expected %s]" % (" ".join(argv), code, state, want)], exit_code=code, state=state)


def run_special(job, scratch, repo, verif, goenv, tier, seed):
    import json, os, subprocess, time
    if job["kind"] != "asmsym":
        raise NotImplementedError(job)
    out = os.path.join(scratch, job["harness"] + ".json")
    t0 = time.time()
    try:
        r = subprocess.run([os.path.join(verif, "engine", "bin", "asmsym"), "-repo", repo, "-out", out], stdout=subprocess.PIPE, stderr=subprocess.STDOUT, text=True, timeout=job.get("timeout", 900), env=goenv)
        log = r.stdout
    except subprocess.TimeoutExpired:
        log = "asmsym timed out"
    if not os.path.exists(out):
        return dict(job=job, special=dict(inconclusive=["asmsym produced no result: " + log[-500:]]), wall=time.time() - t0)
    res = json.load(open(out))
    sp = dict(obligations=res["obligations"], by_solver=res["by_solver"] + res["by_normal_form"], queries=res["queries"], solver_s=res["solver_s"],
              paths=res["paths"], steps=res["steps"], samples=res["samples"] or [], functions=res["functions"], labels=res["labels"],
              inconclusive=list(res["inconclusive"] or []), violations=[], replays=0, mnemonics=res.get("mnemonics"))
    kernels = {"mulByteSliceLEUnsafe": 0, "mulAndAddByteSliceLEUnsafe": 1, "mulSliceSSSE3Unsafe": 2, "mulAndAddSliceSSSE3Unsafe": 3}
    import check
    seen = set()
    for v in res["violations"] or []:
        fn = v["func"].replace("[in==out]", "")
        same = "[in==out]" in v["func"]
        key = (fn, same, v["label"].split(": ", 1)[1][:40])
        if key in seen:
            continue
        seen.add(key)
        base_len = v["model"].get("in_len", 0)
        # the solver's (minimal) length first; if the induction scheme could only report
        # an unproved VC (e.g. a loop counter that is no longer a linear induction
        # variable), the same kernel is also tried natively at a few larger lengths
        probes = [base_len] + [l for l in (64, 96, 8192, 8224, 8256, 65536, 65568, 131072, 131104) if l != base_len]
        os.makedirs(os.path.join(verif, "replays", "C09"), exist_ok=True)
        hit = None
        for n in probes:
            model = dict(in_len=n, c=v["model"].get("c", 0) or 0x1234, kernel=kernels.get(fn, 0), same=1 if same else 0)
            cpath = os.path.join(verif, "replays", "C09", "asm-%s%s-%d.json" % (fn, "-same" if same else "", len(seen)))
            json.dump(dict(harness="C09_asm_replay", label=v["label"], kind="assert", model=model, solver_model=v["model"]), open(cpath, "w"), indent=1)
            rr = check.native_replay(dict(pkg="gf2p16", harness="C09_asm_replay"), cpath, scratch)
            sp["replays"] += 1
            if rr.get("fails") or rr.get("panic"):
                hit = (n, rr, cpath)
                break
        if hit:
            n, rr, cpath = hit
            sp["violations"].append(dict(label=v["label"] + " [native, in_len=%d: " % n + "; ".join(rr.get("fails") or [str(rr.get("panic"))[:80]]) + "]", replay=os.path.relpath(cpath, verif)))
        else:
            sp["inconclusive"].append("asmsym counterexample did not reproduce natively at any probed length: %s" % v["label"])
    # translator validation of asmsym itself: concrete execution vs the real assembly
    cases = os.path.join(scratch, "asm_cases.json")
    r = subprocess.run([os.path.join(verif, "engine", "bin", "asmsym"), "-repo", repo, "-validate", cases, "-seed", str(seed)], stdout=subprocess.PIPE, stderr=subprocess.STDOUT, text=True, env=goenv)
    if r.returncode != 0 or not os.path.exists(cases):
        sp["inconclusive"].append("asmsym -validate failed: " + r.stdout[-300:])
    else:
        dummy = os.path.join(scratch, "asm_validate.json")
        json.dump(dict(harness="C09_asm_validate", model={}), open(dummy, "w"))
        rr = check.native_replay(dict(pkg="gf2p16", harness="C09_asm_validate"), dummy, scratch, extra_env=dict(VERIF_ASM_CASES=cases))
        if rr.get("fails") or rr.get("panic") or rr.get("error") or rr.get("assume_failed"):
            sp["inconclusive"].append("asmsym's instruction semantics disagree with the real assembly on concrete inputs: " + json.dumps(rr)[:300])
        else:
            sp["replays"] += 12
            sp["samples"].append("[validation] 12 concrete runs (4 kernels x 3 lengths, seeded inputs) of the disassembled instruction list through asmsym equal the real assembly's outputs")
    return dict(job=job, special=sp, wall=time.time() - t0)
